"""Per-property job definitions for ./check (see DESIGN.md section 5)."""

MM = "matcher_mon"


def mm(name, suite, cases, tl, shards=16, variant="chk", extra=(), timeout=None, shard_base=0):
    return {
        "name": name, "bin": MM, "variant": variant, "shards": shards, "shard_base": shard_base,
        "args": ["--suite", suite, "--seed", "{seed}", "--shard", "{shard}", "--shards", "{shards}",
                 "--cases", str(cases), "--time-limit", str(tl), "--out", "{out}"] + list(extra),
        "timeout": timeout or (tl * 3 + 120),
    }


def both_builds(name, suite, cases, tl, extra=()):
    """10 shards with debug assertions + overflow checks, 6 shards of the optimized build users ship (different cases)."""
    return [mm(name + "-chk", suite, cases, tl, shards=10, extra=extra),
            mm(name + "-rel", suite, cases, tl, shards=6, variant="rel", extra=extra, shard_base=10)]


def replay_matcher(suite, extra=()):
    def f(rj):
        cid = rj.get("detail", {}).get("case_id", "")
        parts = cid.split(":")
        if len(parts) != 3:
            return []
        seed, shard, idx = parts
        variant = "rel" if (rj.get("job") or "").split("/")[0].endswith("-rel") else "chk"
        j = mm("replay", suite, 1, 600, shards=1, variant=variant, extra=list(extra) + ["--replay-case", idx])
        j["args"] = [a.replace("{seed}", seed).replace("{shard}", shard) for a in j["args"]]
        return [j]
    return f


def match_jobs(prop, quick_cases, thorough_cases, long_quick=0, long_thorough=0):
    def jobs(tier):
        q = tier != "thorough"
        # release build: overflow wraps instead of panicking, debug assertions are gone (both are shipped configurations)
        out = both_builds("match", "match", quick_cases if q else thorough_cases, 25 if q else 600, extra=["--props", prop])
        n_long = long_quick if q else long_thorough
        if n_long:
            out.append(mm("long-rel", "match", n_long, 25 if q else 300, variant="rel", extra=["--props", prop, "--long-only", "1"], shard_base=16))
        return out
    return jobs


RULE_MATCH = ("cases are generated from per-case seeds mix(seed, shard, index): tiny/boundary-rich ASCII alphabets, curated and "
              "folding/normalizable non-ASCII characters placed first/middle/last, anchored-whitespace texts, sizes around the "
              "matrix/u16 limits and needles of 2000-8000 chars; every case is run in every feasible ASCII/code-point "
              "representation combination through all 12 entry points. distinct_nontrivial = distinct (haystack, needle, "
              "configuration) hashes with a non-empty needle not longer than the haystack (union over shards, capped at 250k per shard)")

PROPS = {
    "C01": {
        "jobs": match_jobs("C01", 150000, 12000000),
        "replay": replay_matcher("match", ["--props", "C01"]),
        "rule": RULE_MATCH,
        "require": {"any": {"c01.max-length-haystack-calls": 12, "c01.related": 1000, "c01.unrelated": 1000, "arm.AA": 100, "arm.UA": 100, "arm.UU": 100, "arm.AU": 100, "profile.big": 10}},
        "assumptions": ["the public per-character maps chars::normalize / chars::to_lower_case define the projection (their own correctness is C16)",
                        "U+000B is excluded from generated text (the two representations legitimately classify it differently)"],
    },
    "C02": {
        "jobs": match_jobs("C02", 150000, 12000000),
        "replay": replay_matcher("match", ["--props", "C02"]),
        "rule": RULE_MATCH + "; the indices vector is pre-filled with junk of random length/capacity before every call",
        "require": {"any": {"c02.witnesses": 10000}},
        "assumptions": ["same projection as C01"],
    },
    "C03": {
        "jobs": match_jobs("C03", 150000, 12000000, long_quick=1500, long_thorough=100000),
        "replay": replay_matcher("match", ["--props", "C03"]),
        "rule": RULE_MATCH + "; only haystacks whose character classes are unambiguous are scored; debug(overflow-checks) and release builds",
        "require": {"any": {"c03.scored": 10000, "c03.beyond-u16": 10}},
        "assumptions": ["character classes of non-ASCII haystack characters are restricted to a curated alphabet where std predicates are unambiguous",
                        "beyond 65535 either min(scheme, 65535) or step-wise saturation is accepted, a wrapped value is not"],
    },
    "C04": {
        "jobs": lambda tier: both_builds("quality", "quality", 400000 if tier != "thorough" else 6000000, 25 if tier != "thorough" else 600),
        "replay": replay_matcher("quality"),
        "rule": ("haystacks <= 64 chars (some up to 1500) over boundary-rich alphabets, needles <= 8 (<= 60), emphasis on path configurations; "
                 "oracles: exact DP optimum over all alignments (self-tested against literal enumeration for |haystack| <= 10) and the naive two-matrix recurrence; "
                 "distinct_nontrivial = distinct matching (haystack, needle, configuration) hashes with needle shorter than haystack"),
        "require": {"any": {"c04.compared": 10000, "c04.single-char": 1000, "selftest.brute-vs-dp": 1000, "c04.prefix-compared": 1000}},
        "assumptions": ["scoring scheme as pinned in DESIGN.md Appendix A"],
    },
    "C05": {
        "jobs": match_jobs("C05", 150000, 12000000),
        "replay": replay_matcher("match", ["--props", "C05"]),
        "rule": RULE_MATCH + "; anchored generator weighted 50%",
        "require": {"any": {"c05.related": 10000, "c05.unrelated": 10000, "c05.substring-position-checked": 1000, "profile.anchored": 1000, "c05.calls-on-converted-strings": 10000}},
        "assumptions": ["same projection as C01", "U+000B excluded"],
    },
    "C14": {
        "jobs": lambda tier: both_builds("grammar", "grammar", 1500000 if tier != "thorough" else 100000000, 25 if tier != "thorough" else 600),
        "replay": replay_matcher("grammar"),
        "rule": ("pattern strings of length 0-12 (one in 300: 1500-9000 characters, more than 1024 blanks) over letters, upper case, non-ASCII (cased, uncased, folding-lowercase, title case), every kind of whitespace, "
                 "backslash and the four markers, all CaseMatching x Normalization; reference grammar + ASCII->non-ASCII substitution metamorphic check + "
                 "escape round trip + reparse on a reused object; distinct_nontrivial = distinct pattern strings yielding at least one atom"),
        "require": {"any": {"c14.parsed": 1000, "c14.metamorphic": 500, "c14.escape-roundtrip": 1000, "c14.reparsed": 1000, "c14.sweep-parsed": 100000, "c14.parsed-with-multi-code-point-clusters": 1000, "c14.parsed-with-more-than-1024-blanks": 20}},
        "assumptions": ["reference grammar pinned to the repository's documented ASCII behaviour where the property text is silent (DESIGN.md C14)",
                        "upper case judged only where Unicode Uppercase and chars::is_upper_case agree"],
    },
    "C15": {
        "jobs": lambda tier: both_builds("compose", "compose", 300000 if tier != "thorough" else 3000000, 25 if tier != "thorough" else 600),
        "replay": replay_matcher("compose"),
        "rule": ("0-6 atoms of all kinds/polarities with mixed case/normalization flags, haystacks from the pattern alphabet, lists with duplicates and ties, 1-3 columns; "
                 "reference = composition atom by atom on fresh matchers; the shared matcher is dirtied by unrelated calls; distinct_nontrivial = distinct (atoms, haystack) pairs with at least one atom"),
        "require": {"any": {"c15.matching": 1000, "c15.non-matching": 1000, "c15.with-negation": 1000, "c15.match-list-checked": 1000, "c15.multi-column-checked": 1000, "c15.sum-beyond-u16": 100}},
        "assumptions": ["single-atom matching itself is judged by C01-C05"],
    },
    "C16": {
        "jobs": lambda tier: [{
            "name": "chars", "bin": MM, "variant": "chk", "shards": 16,
            "args": ["--suite", "chars", "--seed", "{seed}", "--shard", "{shard}", "--shards", "{shards}", "--time-limit", "40" if tier != "thorough" else "1500",
                     "--sample-permille", "100" if tier != "thorough" else "1000", "--data", "{root}/data", "--out", "{out}"],
            "timeout": 200 if tier != "thorough" else 3000,
        }, {
            "name": "chars-rel", "bin": MM, "variant": "rel", "shards": 4,
            "args": ["--suite", "chars", "--seed", "{seed}", "--shard", "{shard}", "--shards", "{shards}", "--time-limit", "40" if tier != "thorough" else "1500",
                     "--sample-permille", "30" if tier != "thorough" else "1000", "--data", "{root}/data", "--out", "{out}"],
            "timeout": 200 if tier != "thorough" else 3000,
        }] + ([] if tier != "thorough" else [{
            "name": "regen-data", "variant": "cmd", "shards": 1, "json": False, "timeout": 300,
            "cmd": ["sh", "{root}/data/selfcheck.sh", "{root}"]}]),
        "replay": lambda rj: [],
        "evaluations": ["c16.scalars-enumerated", "cases"],
        "rule": ("table part: ALL 1,112,064 scalar values enumerated against data/casefold_simple.tsv and data/nfkd_ascii_base.tsv (generated from python unicodedata, independent of the crate); "
                 "coherence part: every moved character plus a sample (quick 10%, thorough 100%) of the others placed first/inner/last x 4 configurations x 6 needles through all 12 entry points; "
                 "distinct_nontrivial = characters probed"),
        "require": {"any": {"c16.scalars-enumerated": 1112064, "c16.moved-chars-probed": 1500, "c16.nfkd-expectations": 500}},
        "assumptions": ["python3 unicodedata (Unicode 14.0) simple case folding equals 15.0/15.1 for all assigned characters (checked at design time)",
                        "NFKD decompositions are stable by Unicode policy"],
    },
    "C17": {
        "jobs": lambda tier: both_builds("strings", "strings", 300000 if tier != "thorough" else 3000000, 25 if tier != "thorough" else 600),
        "replay": replay_matcher("strings"),
        "rule": ("strings assembled from cluster level building blocks (base+marks, ZWJ emoji, regional indicator runs, Hangul jamo, prepend, CR/LF arrangements, "
                 "block and plane edges) plus random scalar values, 0-10 blocks; oracle = unicode-segmentation used directly; all O(n^2) ranges; "
                 "distinct_nontrivial = distinct strings containing at least one multi-code-point cluster"),
        "require": {"any": {"c17.with-crlf": 100, "c17.with-multi-codepoint-clusters": 1000, "c17.ranges-checked": 10000}},
        "assumptions": ["unicode-segmentation (the version pinned in /repo/Cargo.lock) is the definition of extended grapheme clusters"],
    },
}


def c10_jobs(tier):
    q = tier != "thorough"
    return [
        mm("total-chk", "total", 12000 if q else 1500000, 25 if q else 600),
        mm("total-rel", "total", 6000 if q else 500000, 25 if q else 300, variant="rel"),
        mm("match-chk", "match", 60000 if q else 4000000, 25 if q else 600, extra=["--props", "C10"]),
    ]


PROPS["C10"] = {
    "jobs": c10_jobs,
    "replay": replay_matcher("total"),
    "rule": ("three monitors: every call of the match workloads under catch_unwind in a build with overflow checks and debug assertions; a slab hook asserting that each of the five "
             "views lies inside the slab and they are disjoint for every allocation; one long-lived Matcher serving a random call sequence (sizes alternating large/small, "
             "configurations switched) compared call by call with a brand new Matcher. distinct_nontrivial = distinct (haystack, needle, configuration) hashes"),
    "require": {"any": {"c10.history-compared": 10000, "slab.allocs-checked": 10000, "slab.distinct-shapes": 500, "profile.far-start": 20, "profile.long-needle": 50, "c10.slab-frontiers-located": 300}},
    "assumptions": ["haystacks up to 3*10^5 characters (the documented limit 2^32 is out of reach)", "memory safety beyond view extents is judged by the Miri/ASan jobs"],
}


MIRI_SB = "-Zmiri-disable-isolation -Zmiri-seed={seed}"
MIRI_TB = "-Zmiri-disable-isolation -Zmiri-tree-borrows -Zmiri-permissive-provenance -Zmiri-ignore-leaks -Zmiri-seed={seed}"
ASAN_ENV = {"ASAN_OPTIONS": "detect_leaks=1:halt_on_error=1:abort_on_error=0:detect_stack_use_after_return=0", "LSAN_OPTIONS": "report_objects=1"}


def sort_job(name, variant, shards, cases, tl, max_len, small=False, timeout=None, **kw):
    j = {
        "name": name, "bin": "sort_mon", "variant": variant, "shards": shards,
        "args": ["--seed", "{seed}", "--shard", "{shard}", "--cases", str(cases), "--time-limit", str(tl), "--max-len", str(max_len),
                 "--small", "1" if small else "0", "--out", "{out}", "--crumb", "{out}.crumb"],
        "timeout": timeout or (tl * 3 + 120),
        "crash_is_violation": True,
    }
    j.update(kw)
    return j


def c18_jobs(tier):
    q = tier != "thorough"
    return [
        sort_job("sort-chk", "chk", 16, 1500 if q else 60000, 30 if q else 900, 500000),
        sort_job("sort-rel", "rel", 4, 1500 if q else 60000, 30 if q else 600, 500000),
        sort_job("sort-asan", "asan", 4, 400 if q else 20000, 30 if q else 600, 120000, sanitizer=True, env=ASAN_ENV),
        sort_job("sort-miri", "miri", 8 if q else 16, 2 if q else 40, 100 if q else 2400, 400 if q else 1900, small=True,
                 sanitizer=True, miriflags=MIRI_SB, timeout=400 if q else 4000),
    ]


def replay_sort(rj):
    cid = rj.get("detail", {}).get("case_id", "")
    parts = cid.split(":")
    if len(parts) != 3:
        return []
    j = sort_job("replay", "chk", 1, 1, 600, 500000)
    j["args"] = [a.replace("{seed}", parts[0]).replace("{shard}", parts[1]) for a in j["args"]] + ["--replay-case", parts[2]]
    return [j]


PROPS["C18"] = {
    "jobs": c18_jobs,
    "replay": replay_sort,
    "rule": ("slices of (key, unique id) through the par_quicksort facade: lengths 0..24, 19-22, 49-51, 1999-2001, 4001, up to 500000; shapes sorted/reversed/organ-pipe/saw-tooth/"
             "all-equal/2 and 10 keys/random/median-of-3 killer/adaptive antiquicksort adversary (forces limit==0 -> heapsort); pools of 1/2/4/16 threads; strict weak and total orders; "
             "cancellation pre-raised, raised by the comparator at its k-th call, or by a second thread; phases reached are counted through verif points; "
             "native debug-assertion and release builds, AddressSanitizer, Miri (small slices, no pool); plus one item set through Nucleo with 1/2/4/16 threads. "
             "distinct_nontrivial = distinct (length > 20, key prefix, cancellation, threads) tuples"),
    "require": {"any": {"phase.heapsort": 1, "phase.break-patterns": 1, "phase.partial-insertion": 1, "phase.partition-equal": 1, "phase.cancel-observed": 1,
                         "phase.parallel-join": 1, "c18.reported-cancelled": 10, "c18.reported-not-cancelled": 100, "c18.end-to-end-item-sets": 1, "shape.antiquicksort-in-a-part": 50}},
    "assumptions": ["a stack overflow / abort of the monitor process while sorting is a violation (the crumb file names the case)",
                    "Miri runs call the sort on the current thread with slices <= 2000 elements, which never reach rayon::join"],
}


TSAN_ENV = {"TSAN_OPTIONS": "halt_on_error=0 exitcode=66 second_deadlock_stack=1"}


def bx(name, mode, variant, shards, cases, tl, extra=(), timeout=None, **kw):
    j = {
        "name": name, "bin": "boxcar_mon", "variant": variant, "shards": shards,
        "args": ["--mode", mode, "--seed", "{seed}", "--shard", "{shard}", "--cases", str(cases), "--time-limit", str(tl), "--out", "{out}"] + list(extra),
        "timeout": timeout or (tl * 3 + 120),
    }
    j.update(kw)
    return j


def wk(name, mode, variant, shards, cases, tl, props=None, extra=(), timeout=None, **kw):
    j = {
        "name": name, "bin": "worker_mon", "variant": variant, "shards": shards,
        "args": ["--mode", mode, "--seed", "{seed}", "--shard", "{shard}", "--cases", str(cases), "--time-limit", str(tl), "--out", "{out}"]
                + (["--props", props] if props else []) + list(extra),
        "timeout": timeout or (tl * 3 + 120),
        "crash_is_violation": True,
    }
    j.update(kw)
    return j


def replay_generic(binary, mode, props=None):
    def f(rj):
        cid = rj.get("detail", {}).get("case_id", "")
        parts = cid.split(":")
        if len(parts) != 3:
            return []
        # the job that produced the witness tells which driver has to re-run the case
        job = (rj.get("job") or "").split("/")[0]
        m = mode
        for known in (("lin", "stress", "drop", "layout", "exhaust") if binary == "boxcar_mon" else ("directed", "random")):
            if known in job:
                m = known
        if binary != "boxcar_mon" and job == "nucleo-chk":
            m = "random"
        if binary != "boxcar_mon" and job.startswith("model"):
            m = "c20"
        variant = "rel" if job.endswith("-rel") else "chk"
        j = bx("replay", m, variant, 1, 1, 600, extra=["--quiet-panics", "1"]) if binary == "boxcar_mon" else wk("replay", m, variant, 1, 1, 600, props=props)
        j["args"] = [a.replace("{seed}", parts[0]).replace("{shard}", parts[1]) for a in j["args"]] + ["--replay-case", parts[2]]
        return [j]
    return f


def c08_jobs(tier):
    q = tier != "thorough"
    return [
        bx("lin-chk", "lin", "chk", 9, 1000000, 25 if q else 900),
        bx("lin-rel", "lin", "rel", 3, 1000000, 25 if q else 900, shard_base=9),
        bx("stress-chk", "stress", "chk", 3, 1000000, 20 if q else 600),
        bx("stress-rel", "stress", "rel", 2, 1000000, 20 if q else 600, shard_base=3),
        bx("stress-asan", "stress", "asan", 2, 1000000, 15 if q else 300, sanitizer=True, env=ASAN_ENV, crash_is_violation=True),
        bx("stress-miri", "stress", "miri", 6 if q else 16, 2 if q else 30, 120 if q else 3000, extra=["--small", "1"], sanitizer=True,
           miriflags=MIRI_SB + " -Zmiri-preemption-rate=0.05", timeout=500 if q else 4000),
    ] + layout_jobs(tier, exhaust=True, prop="C08")


def layout_jobs(tier, exhaust=False, asan=False, prop=None):
    # single threaded: item types of every alignment / with and without drop glue x columns x capacities; exhausted index space
    q = tier != "thorough"
    out = [
        # single threaded, no hooks, plain item types: a crash of these processes is the vector's doing
        bx("layout-chk", "layout", "chk", 2, 1000000, 10 if q else 120, crash_is_violation=True),
        bx("layout-rel", "layout", "rel", 1, 1000000, 8 if q else 120, crash_is_violation=True),
        bx("layout-miri", "layout", "miri", 5 if q else 16, 1 if q else 40, 300 if q else 3000, sanitizer=True, miriflags=MIRI_SB, timeout=900 if q else 5000),
    ]
    if asan:
        out.append(bx("layout-asan", "layout", "asan", 1, 1000000, 10 if q else 120, sanitizer=True, env=ASAN_ENV, crash_is_violation=True))
    if exhaust:
        out += [
            bx("exhaust-chk", "exhaust", "chk", 1, 1000000, 8 if q else 60, extra=["--quiet-panics", "1"]),
            bx("exhaust-rel", "exhaust", "rel", 1, 1000000, 8 if q else 60, extra=["--quiet-panics", "1"]),
            bx("exhaust-miri", "exhaust", "miri", 1 if q else 8, 8 if q else 200, 300 if q else 2000, extra=["--quiet-panics", "1"], sanitizer=True, miriflags=MIRI_SB,
               timeout=900 if q else 4000),
        ]
    if prop:
        # the workload is shared by several checks: what it finds is filed under the check that runs it
        for j in out:
            j["args"] = j["args"] + ["--as-prop", prop]
    return out


PROPS["C08"] = {
    "jobs": c08_jobs,
    "replay": replay_generic("boxcar_mon", "lin"),
    "evaluations": ["schedules", "histories"],
    "rule": ("history + sequential model with unique ids: (1) controlled schedules - 2-5 real threads block at every vector yield point (verif hooks) and a seeded scheduler "
             "(uniform / sticky / PCT) releases exactly one at a time, so each run is one interleaving at the granularity of the vector's atomic operations; capacities 0/1/32/33/1024, "
             "1-3 columns, prefill next to bucket boundaries, lying ExactSizeIterators, panicking and re-entrant callbacks; (2) free running 2-16 thread stress with seeded delays at the "
             "same points, checked with interval rules; (3) ASan and Miri (Stacked Borrows, leak check) on the same shapes. distinct_nontrivial = distinct (thread, yield point) trace "
             "hashes of controlled schedules plus distinct stress histories"),
    "require": {"any": {"schedules": 2000, "schedules-with-competing-bucket-allocation": 20, "gets-that-met-an-unpublished-or-reserved-slot": 100,
                         "snapshots-that-met-unpublished-slots": 100, "lying-iterators": 100, "histories": 50, "ops-overlapping-another-thread": 1000,
                         "exhaust.reservations-beyond-2^32": 100, "layout.references-checked": 10000, "exhaust.count-read-inside-a-refused-reservation": 20}},
    "assumptions": ["yield points are placed before every atomic operation of the vector (MANIFEST.hooks); interleavings inside a fill callback are not split further",
                    "batch contiguity is recorded, not judged"],
}


def c09_jobs(tier):
    q = tier != "thorough"
    return [
        bx("race-miri", "race", "miri", 12 if q else 16, 1 if q else 16, 200 if q else 3000, extra=["--items", "34", "--writers", "2", "--readers", "3"], sanitizer=True,
           miriflags=MIRI_SB + " -Zmiri-preemption-rate=0.05", timeout=600 if q else 4000),
        bx("race-tsan", "race", "tsan", 5, 60 if q else 1500, 40 if q else 900, extra=["--items", "200", "--writers", "4", "--readers", "8"], sanitizer=True, env=TSAN_ENV),
        wk("nucleo-race-miri", "race", "miri", 4 if q else 16, 1 if q else 8, 300 if q else 3000, extra=["--items", "40", "--injectors", "2", "--pool", "2"], sanitizer=True,
           miriflags=MIRI_TB + " -Zmiri-preemption-rate=0.03", timeout=900 if q else 5000),
        wk("nucleo-race-tsan", "race", "tsan", 5, 8 if q else 200, 40 if q else 900, extra=["--items", "3000", "--injectors", "4", "--pool", "8"], sanitizer=True, env=TSAN_ENV),
        # the directed schedules (writers parked inside their fill callback across scans, cancellations and rescoring runs) with the race detector watching:
        # what the stress workload meets by chance is forced here
        wk("nucleo-directed-tsan", "directed", "tsan", 3, 1000000, 30 if q else 600, props="C09", sanitizer=True, env=TSAN_ENV),
    ]


PROPS["C09"] = {
    "jobs": c09_jobs,
    "replay": lambda rj: [],
    "evaluations": ["race-histories"],
    "rule": ("race detectors judge the orderings declared in the source: workloads install no hook and share no log/counter; start barriers spin on Relaxed flags. Vector level: writers that "
             "allocate new buckets (capacity 1) while readers get() indices in those buckets without ever touching the counter, get_unchecked after an observed Some, snapshot iteration during "
             "pushes - under Miri (many seeds, raised preemption rate, weak memory emulation) and ThreadSanitizer (16 threads, repeated 5x). Nucleo level: injector threads + ticking thread + "
             "pool threads with pattern edits (rescoring, tie-breaking comparator), update_config, restart and drop - Miri (tree borrows flags, see DESIGN) and ThreadSanitizer. "
             "distinct_nontrivial = executions (seed x shard x history); every Miri process uses its own scheduler seed"),
    "require": {"any": {"race-histories": 10, "race.reads-some": 1000, "race.reads-none": 100, "race.histories-with-more-than-64-pool-threads": 3}},
    "assumptions": ["reorderings neither tool produced are not covered", "third-party-only sanitizer stacks are listed, not judged"],
}


def c11_jobs(tier):
    q = tier != "thorough"
    return [
        bx("drop-chk", "drop", "chk", 6, 1000000, 15 if q else 600),
        bx("drop-rel", "drop", "rel", 2, 1000000, 15 if q else 600, shard_base=6),
        bx("drop-asan", "drop", "asan", 4, 1000000, 15 if q else 300, sanitizer=True, env=ASAN_ENV, crash_is_violation=True),
        bx("drop-miri", "drop", "miri", 6 if q else 16, 3 if q else 60, 150 if q else 3000, extra=["--small", "1"], sanitizer=True, miriflags=MIRI_SB, timeout=500 if q else 4000),
        wk("nucleo-chk", "random", "chk", 8, 1000000, 25 if q else 900, props="C11"),
        wk("nucleo-directed", "directed", "chk", 4, 1000000, 25 if q else 600, props="C11"),
        wk("nucleo-asan", "random", "asan", 4, 1000000, 20 if q else 600, props="C11", sanitizer=True, env=ASAN_ENV),
    ] + layout_jobs(tier, asan=True, exhaust=True, prop="C11")


PROPS["C11"] = {
    "jobs": c11_jobs,
    "replay": replay_generic("boxcar_mon", "drop"),
    "evaluations": ["histories"],
    "rule": ("tracked payloads (unique id, canary poisoned on drop, per-id drop counters, per-stream live-handle counters decremented before the real handle is dropped): vector level "
             "histories of push/extend with honest, over- and under-reporting iterators (over-reporting across several buckets followed by pushes that land behind the gap), callbacks that "
             "panic at position k, capacities where bucket b+1 is allocated while bucket b never is - natively, under ASan+LSan and under Miri with the leak checker; Nucleo level random and "
             "directed histories (restart, clones, injectors dropped in any order, held writers, background bursts) natively and under ASan+LSan. distinct_nontrivial = distinct history shapes"),
    "require": {"any": {"c11.gap-shapes": 50, "c11.payloads-created": 10000, "histories": 500, "restarts.clear": 10, "restarts.keep": 10,
                         "c11.plain-data-items-with-filled-columns": 1000, "c11.long-gaps-inside-a-large-bucket": 5, "c11.histories-where-injectors-outlive-the-matcher": 20,
                         "directed.restart.twice-without-tick.sole-owner": 5, "directed.restart.first-run-on-the-new-stream-cancelled": 3}},
    "assumptions": ["column allocations of a panicking callback are not judged (the property does not promise them)",
                    "after restart the matcher may let go of the old stream at any time; only injector handles count as 'can reach' for the early-drop rule of old streams",
                    "the pool thread that ran the last run releases its worker reference asynchronously: drop counts get up to 10 s to settle (a leak never settles)"],
}


def worker_jobs(prop, with_asan=False):
    def jobs(tier):
        q = tier != "thorough"
        out = [
            wk("random-chk", "random", "chk", 8, 1000000, 25 if q else 900, props=prop),
            wk("directed-chk", "directed", "chk", 5, 1000000, 25 if q else 900, props=prop),
            # the optimized build users ship (no debug assertions, wrapping arithmetic, different timing)
            wk("random-rel", "random", "rel", 2, 1000000, 25 if q else 900, props=prop, shard_base=8),
            wk("directed-rel", "directed", "rel", 1, 1000000, 25 if q else 900, props=prop, shard_base=5),
        ]
        if with_asan:
            out.append(wk("random-asan", "random", "asan", 2, 1000000, 20 if q else 600, props=prop, sanitizer=True, env=ASAN_ENV))
            out.append(wk("random-miri", "random", "miri", 4 if q else 16, 1 if q else 10, 300 if q else 3000, props=prop, extra=["--small", "1", "--delays", "0"],
                          sanitizer=True, miriflags=MIRI_TB, timeout=900 if q else 5000))
        return out
    return jobs


RULE_WORKER = ("scripted histories against a real Nucleo (threads 1/2/3/4/8/16, now and then more than the hardware has, 65-134 or the library default; 1-5 columns): pushes/extends from the control thread and background burst threads, writers parked inside "
               "fill_columns (index reserved, not published), pattern edits typed character by character with truthful append flags (markers and escapes in last position), deletions, "
               "replacements, ticks with timeouts 0..50 ms, restart(true|false), injector create/clone/clone_from/drop; random driver with seeded delays at the verif points plus directed driver that "
               "pauses the worker at named phases (two writers in flight across a parallel scan, cancellation mid run, restart while paused / after an unobserved run / twice). "
               "Every snapshot after every tick is checked. distinct_nontrivial = distinct histories")

PROPS["C06"] = {
    "jobs": lambda tier: worker_jobs("C06", with_asan=True)(tier) + layout_jobs(tier, prop="C06"),
    "replay": replay_generic("worker_mon", "random", "C06"),
    "evaluations": ["histories"],
    "rule": RULE_WORKER,
    "require": {"any": {"ticks": 2000, "snapshots-with-writer-in-flight": 200, "snapshots-with-2+-writers-in-flight": 100, "directed.two-in-flight": 20,
                         "directed.tick-over-paused-run": 5, "tick.changed=true.running=true": 50, "layout.references-checked": 10000}},
    "assumptions": ["matcher configuration fixed per history", "scores are recomputed with snapshot.pattern() on the monitor's own Matcher"],
}
PROPS["C07"] = {
    "jobs": worker_jobs("C07"),
    "replay": replay_generic("worker_mon", "random", "C07"),
    "evaluations": ["histories"],
    "rule": RULE_WORKER + "; at the end every injector is dropped, the matcher is ticked (<= 200 x 50 ms) until running == false and the snapshot is compared with the from-scratch result",
    "require": {"any": {"c07.quiescent-states-compared": 1000, "directed.typing": 50, "directed.cancel-mid-run": 10, "directed.published-between-two-reads-of-the-run": 20}},
    "assumptions": ["append flag is truthful (previous text is a prefix of the new text)", "update_config is not used"],
}
PROPS["C12"] = {
    "jobs": worker_jobs("C12"),
    "replay": replay_generic("worker_mon", "directed", "C12"),
    "evaluations": ["histories"],
    "rule": RULE_WORKER + "; payloads carry their stream number",
    "require": {"any": {"restarts.clear": 100, "restarts.keep": 100, "directed.restart.run-paused-before-sort": 3, "directed.restart.run-finished-unobserved": 3,
                         "directed.restart.twice-without-tick": 3, "directed.restart-with-old-pushers": 5, "directed.huge-snapshot-restarts": 1,
                         "directed.restart.same-counts-other-positions": 3}},
    "assumptions": ["an empty snapshot (no matches, item_count 0) carries no stream identity"],
}
PROPS["C19"] = {
    "jobs": worker_jobs("C19"),
    "replay": replay_generic("worker_mon", "random", "C19"),
    "evaluations": ["histories"],
    "rule": RULE_WORKER + "; every tick is wrapped: copy of the snapshot before, count of pushes of the current stream completed before",
    "require": {"any": {"tick.changed=false.running=false": 100, "tick.changed=false.running=true": 100, "tick.changed=true.running=false": 100, "tick.changed=true.running=true": 50,
                         "directed.tick-over-paused-run": 5, "directed.update-config-mid-run": 3, "update-config-calls": 50}},
    "assumptions": ["'completed before the call' is counted when push/extend has returned on its thread"],
}
PROPS["C20"] = {
    "jobs": lambda tier: [wk("model-chk", "c20", "chk", 6, 1000000, 15 if tier != "thorough" else 600),
                          wk("model-rel", "c20", "rel", 2, 1000000, 15 if tier != "thorough" else 600, shard_base=6),
                          wk("random-chk", "random", "chk", 4, 1000000, 15 if tier != "thorough" else 600, props="C20"),
                          wk("directed-chk", "directed", "chk", 4, 1000000, 15 if tier != "thorough" else 600, props="C20")],
    "replay": replay_generic("worker_mon", "c20"),
    "evaluations": ["histories"],
    "rule": ("model based: the harness keeps for every live injector handle the stream it was created from; single threaded control; after EVERY step of random histories of injector(), clone, "
             "drop, restart(true|false), push, tick (completing, or timing out against a worker paused at run entry) active_injectors() is compared exactly; the random/directed worker "
             "histories add the same comparison with helper threads (interval bound). distinct_nontrivial = distinct histories; model states visited are counted"),
    "require": {"any": {"c20.steps-compared": 10000, "c20.distinct-model-states": 6, "c20.tick-against-paused-worker.running=true": 10}},
    "assumptions": ["helper threads' clones are bounded by counters incremented before the clone is made and decremented after it is dropped"],
}
PROPS["C13"] = {
    "jobs": lambda tier: [wk("c13-chk", "c13", "chk", 8, 1000000, 25 if tier != "thorough" else 900),
                          wk("c13-rel", "c13", "rel", 4, 1000000, 20 if tier != "thorough" else 600)],
    "replay": replay_generic("worker_mon", "c13"),
    "evaluations": ["histories"],
    "rule": ("bounded-progress form: for a tick that returned running == true, once every background run spawned so far has passed its single notification decision point, a notify with a "
             "stamp later than the tick's begin must exist. Directed: all 11 orderings of {worker: read flag, unlock} against {tick: clear, try-lock, re-arm, continue/return} (including the worker holding the lock for a while after its decision) are forced with pause hooks "
             "and timeout 0 (empty and non-empty pattern run paths); random: an event loop that ticks only when notified, injector threads, seeded delays, timeouts 0-5 ms; injector clause: "
             "inside notify on a thread that is inside push/extend the items of that call are visible; same-count runs: a run over a new stream (or after a late publication) whose result has exactly as many matches as the previous one must still notify. distinct_nontrivial = schedules / event loops run"),
    "require": {"any": {"c13.schedules-judged": 200, "c13.ordering[C R L U A]": 10, "c13.ordering[C L R A U]": 10, "c13.ordering[R C L A U]": 10, "c13.ordering[C L A return R U]": 10, "c13.ordering[C R L A (tick goes on, worker held) U]": 10, "c13.ordering[R C L A (tick goes on, worker held) U]": 10,
                         "c13.event-loops": 20, "c13.injector-notifies-checked": 500, "c13.same-count.variant0.running=true": 3,
                         "c13.update-config.run-held=true.running=true": 3, "c13.same-count.variant3.running=true": 3, "c13.ticks-issued-inside-the-notify-callback": 10, "c13.ticks-on-one-matcher-while-another-ran": 10, "c13.idle-runs-ending-inside-a-tick": 10,
                         "c13.schedules-on-an-instance-with-65536+-earlier-runs": 2, "c13.event-loop-final-results-compared": 50}},
    "assumptions": ["an unbounded 'eventually' is not decidable on a finite run: the verdict is taken when no run is pending any more (final, not a timeout)"],
}


def grid_job(name, variant, shards, cases, tl, max_cells, **kw):
    j = {
        "name": name, "bin": MM, "variant": variant, "shards": shards,
        "args": ["--suite", "grid", "--seed", "{seed}", "--shard", "{shard}", "--shards", "{shards}", "--cases", str(cases), "--time-limit", str(tl),
                 "--max-cells", str(max_cells), "--out", "{out}"],
        "timeout": tl * 3 + 200,
        "sanitizer": True,
    }
    j.update(kw)
    return j


_c10_base = c10_jobs


def c10_jobs_full(tier):
    q = tier != "thorough"
    return _c10_base(tier) + [
        grid_job("grid-miri", "miri", 10 if q else 16, 1 if q else 6, 60 if q else 2400, 12000 if q else 110000, miriflags=MIRI_SB),
        grid_job("grid-asan", "asan", 3, 30 if q else 3000, 20 if q else 600, 10000000, env=ASAN_ENV, crash_is_violation=True),
        mm("match-asan", "match", 30000 if q else 3000000, 20 if q else 600, shards=3, variant="asan", extra=["--props", "C10"]),
    ]


PROPS["C10"]["jobs"] = c10_jobs_full
PROPS["C10"]["rule"] += ("; plus a size grid (1x1 ... 70000x4, cells around 100 KiB, needle around 2048, haystack around 65535) through all 12 entry points under Miri "
                         "(Stacked Borrows: a reference that extends past its allocation is reported when it is formed) and AddressSanitizer")
PROPS["C10"]["require"]["any"]["grid.shapes-run"] = 10
PROPS["C10"]["require"]["any"]["c10.accepted-after-a-rejected-window"] = 100

_c15_base = PROPS["C15"]["jobs"]
_c15_replay = PROPS["C15"]["replay"]
# the multi-column conjunction as the high-level crate applies it (per-column status, rescoring versus updating old matches)
PROPS["C15"]["jobs"] = lambda tier: _c15_base(tier) + [
    wk("nucleo-columns-chk", "random", "chk", 4, 1000000, 20 if tier != "thorough" else 600, props="C15"),
    wk("nucleo-columns-rel", "random", "rel", 2, 1000000, 20 if tier != "thorough" else 600, props="C15", shard_base=4)]
PROPS["C15"]["replay"] = lambda rj: (replay_generic("worker_mon", "random", "C15")(rj) if (rj.get("job") or "").startswith("nucleo-") else _c15_replay(rj))
PROPS["C15"]["rule"] += ("; plus histories against a real Nucleo with 2-5 columns (several columns edited between two ticks, appended and replaced): the quiescent snapshot must be "
                         "the conjunction over the columns computed from scratch")
PROPS["C15"]["require"]["any"]["c15.multi-column-quiescent-states-compared"] = 200
PROPS["C15"]["require"]["any"]["c15.ticks-after-edits-of-2+-columns"] = 50

_c18_base = PROPS["C18"]["jobs"]
_c18_replay = PROPS["C18"]["replay"]
# the sort as the worker uses it: its comparison, the cancel flag raised by pattern edits while a sort is going on, the published order
PROPS["C18"]["jobs"] = lambda tier: _c18_base(tier) + [
    wk("nucleo-order-chk", "random", "chk", 3, 1000000, 20 if tier != "thorough" else 600, props="C18"),
    wk("nucleo-order-directed", "directed", "chk", 2, 1000000, 20 if tier != "thorough" else 600, props="C18"),
    wk("nucleo-order-rel", "random", "rel", 1, 1000000, 20 if tier != "thorough" else 600, props="C18", shard_base=3)]
PROPS["C18"]["replay"] = lambda rj: (replay_generic("worker_mon", "directed" if "directed" in (rj.get("job") or "") else "random", "C18")(rj)
                                     if (rj.get("job") or "").startswith("nucleo-") else _c18_replay(rj))
PROPS["C18"]["rule"] += ("; plus histories against a real Nucleo: every published match list must be sorted by the worker's total order (score descending, length, index), "
                         "also when pattern edits raise the cancel flag while a sort is going on")
PROPS["C18"]["require"]["any"]["c18.published-match-lists-checked-for-order"] = 1000

_c02_base = PROPS["C02"]["jobs"]
PROPS["C02"]["jobs"] = lambda tier: _c02_base(tier) + [
    grid_job("grid-miri", "miri", 6 if tier != "thorough" else 16, 1 if tier != "thorough" else 4, 50 if tier != "thorough" else 2400, 6000 if tier != "thorough" else 110000, miriflags=MIRI_SB)]
PROPS["C02"]["rule"] += "; the back-pointer walk additionally runs under Miri on a size grid"

for _p in ("C11", "C12", "C19", "C20"):
    PROPS[_p]["require"]["any"]["directed.destructor-panic.unwound-through-the-api"] = 5
