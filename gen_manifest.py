#!/usr/bin/env python3
"""Writes MANIFEST.json from the tables below (kept in one place so it stays valid)."""
import json, subprocess

LEVEL = {
 "C01": ("differential monitor: normalized-subsequence reference decider vs the four fuzzy entry points over millions of generated inputs in all representation combinations", "sec 5 C01"),
 "C02": ("witness checker on every *_indices call (junk-prefilled vector, six algorithms)", "sec 5 C02"),
 "C03": ("score oracle: fzf scheme (literal numbers) re-evaluated on the reported alignment, debug+release builds, long needles", "sec 5 C03"),
 "C04": ("bounds monitor: exact DP optimum and naive two-matrix recurrence vs fuzzy_match; prefix preference range", "sec 5 C04"),
 "C05": ("differential monitor: reference deciders for substring/prefix/postfix/exact incl. best-bonus leftmost occurrence", "sec 5 C05"),
 "C10": ("catch_unwind totality monitor with overflow checks, slab view-extent hook, long-lived vs fresh matcher differential", "sec 5 C10"),
 "C14": ("reference grammar differential + ASCII/non-ASCII substitution metamorphic monitor + escape round trip + reparse", "sec 5 C14"),
 "C15": ("composition oracle: atom-by-atom evaluation on fresh matchers vs Pattern/Atom/MultiPattern API on a dirtied shared matcher; patterns with a parse history and in-place atom edits, sums beyond u16, long lived copies updated with clone_from; the column conjunction as the worker applies it is judged on Nucleo histories with 2-5 columns", "sec 5 C15, 11.4"),
 "C16": ("exhaustive enumeration of all 1,112,064 scalar values against independent Unicode data + coherence probes through every matcher path", "sec 5 C16"),
 "C17": ("differential monitor against unicode-segmentation used directly, all constructors, iterator adaptors and all ranges; long texts with pieces across power-of-two byte offsets", "sec 5 C17, 11.4"),
}
NOTE = {
 "C01": "trusted: chars::normalize/to_lower_case as the projection (C16 checks them against Unicode data); harness generators; held on the inputs generated, not a proof",
 "C02": "trusted: same projection; held on the calls made",
 "C03": "trusted: scoring scheme as pinned in DESIGN.md Appendix A, std character predicates on a curated alphabet",
 "C04": "trusted: DP optimum oracle (self-tested against enumeration every run); known finding KF-D17-C04 listed in known_findings.json",
 "C05": "trusted: same projection, char::is_whitespace for trimming (U+000B excluded)",
 "C10": "trusted: slab hook reports the pointers actually used; sizes <= 3*10^5; Miri/ASan jobs cover reference validity",
 "C14": "trusted: reference grammar pinned to documented ASCII behaviour; Debug output of Atom for the private flags",
 "C15": "trusted: single-atom matcher functions (judged by C01-C05)",
 "C16": "trusted: python3 unicodedata 14.0 (simple case folding identical to 15.x; NFKD stable)",
 "C17": "trusted: unicode-segmentation crate as the definition of extended grapheme clusters",
}
TECH = {
 "C01": "runtime monitoring: differential reference-model oracle over generated inputs",
 "C02": "runtime monitoring: witness-validity oracle on every call",
 "C03": "runtime monitoring: score re-evaluation oracle, debug/overflow-check and release builds",
 "C04": "runtime monitoring: bounds oracle (exact DP optimum, naive recurrence)",
 "C05": "runtime monitoring: differential reference deciders",
 "C10": "runtime monitoring: catch_unwind + overflow-check build, slab extent hook, history differential",
 "C14": "runtime monitoring: reference grammar + metamorphic relation",
 "C15": "runtime monitoring: composition oracle",
 "C16": "runtime monitoring: exhaustive table sweep + probe matches",
 "C17": "runtime monitoring: differential against segmentation library",
}
LEVEL["C18"] = ("sorted-permutation / cancellation-report oracle on the par_quicksort facade over adversarial shapes, sizes, thread counts and logical cancellation moments; phase coverage through verif points; Miri + ASan on the raw-pointer code; thread-count determinism through Nucleo; every match list published by Nucleo histories (pattern edits during a sort) judged under the worker's total order", "sec 5 C18, 11.4")
NOTE["C18"] = "trusted: the facade delegates to the private function unchanged; cancellation moments are logical (k-th comparison) or a racing thread; Miri only for slices <= 2000 (no rayon::join)"
TECH["C18"] = "runtime monitoring: output oracle + sanitizers (Miri, ASan) + phase-coverage hooks"
PENDING = {}

def main():
    props = [json.loads(l) for l in open('properties.jsonl')]
    commits = subprocess.run(["git", "-C", "/repo", "log", "--format=%h %s"], capture_output=True, text=True).stdout.splitlines()
    hooks = [c.split()[0] for c in commits if c.split(' ', 1)[1].startswith('verif-hooks:')]
    checks = []
    na = []
    for p in props:
        pid = p['id']
        if pid in LEVEL:
            checks.append({
                "property_id": pid,
                "quick_cmd": "./check %s quick" % pid,
                "thorough_cmd": "./check %s thorough" % pid,
                "evidence_file": "evidence/%s.json" % pid,
                "replay_cmd_template": "./check %s quick --replay {path}" % pid,
                "engine": ENGINE.get(pid, "matcher_mon"),
                "level_claimed": {"category": "exploration", "text": LEVEL[pid][0] + ". Verdict: held on the executions observed (counts in the evidence file), never 'verified'.", "design_ref": LEVEL[pid][1]},
                "level_note": NOTE[pid],
                "technique": TECH[pid],
            })
        else:
            na.append({"property_id": pid, "reason": PENDING.get(pid, "monitor not built yet (work in progress, see DESIGN.md section 5)")})
    m = {
        "version": 1,
        "setup_cmd": "./check build chk rel asan tsan miri",
        "hooks": {
            "guard": "cargo feature verif-hooks (nucleo/verif-hooks enables nucleo-matcher/verif-hooks), off by default",
            "enable": "harness/Cargo.toml depends on /repo and /repo/matcher by path with features = [\"verif-hooks\"]; every check rebuilds with cargo from /repo's working tree",
            "baseline_off_cmd": "cd /repo && cargo test --workspace --no-fail-fast --offline",
            "source_commits": list(reversed(hooks)),
            "add_only": True,
        },
        "engines": ENGINES,
        "checks": checks,
        "notes": "Technique family: runtime monitoring and sanitizers. Verdicts are three-valued (exit 0 held / 1 violation / 2 inconclusive). known_findings.json lists open findings (reported as KNOWN-FINDING) and fixed: records.",
        "not_applicable": na,
    }
    json.dump(m, open('MANIFEST.json', 'w'), indent=1)
    print(len(checks), "checks,", len(na), "not claimed")

ENGINE = {"C18": "sort_mon+worker_mon"}
ENGINES = [
 {"name": "sort_mon", "path": "harness/src/bin/sort_mon.rs", "serves_properties": ["C18"], "kind_free_text": "parallel sort monitor (native chk/release, ASan, Miri) with phase hooks"},
 {"name": "matcher_mon", "path": "harness/src/bin/matcher_mon.rs", "serves_properties": ["C01", "C02", "C03", "C04", "C05", "C10", "C14", "C15", "C16", "C17"], "kind_free_text": "native differential/metamorphic monitors over generated inputs (debug-assertion+overflow-check and release builds)"},
]

LEVEL.update({
 "C06": ("snapshot consistency checker after every tick of scripted/random/directed histories against a real Nucleo (held writers, cancellations, restarts, publication at the n-th read of the run, update_config, changing reparse settings; debug-assertion and release builds), ASan and Miri on small histories, plus a single threaded layout mode over item types of every alignment", "sec 5 C06, 11.4"),
 "C07": ("quiescence oracle: snapshot vs from-scratch result after random and directed edit/tick/restart histories", "sec 5 C07"),
 "C08": ("recorded histories checked against a sequential append-only model with unique ids: controlled schedules at atomic-operation granularity (coroutine scheduler over verif yield points) + free-running stress (debug-assertion and release builds) + ASan + Miri; item types of every alignment and very large vectors; exhausted index space (refused reservations beyond 2^32, count read inside a refused reservation)", "sec 5 C08, 11.4"),
 "C09": ("race detectors (Miri with many seeds, ThreadSanitizer) on hook-free vector-level and Nucleo-level workloads (pools of up to 134 threads) and on the directed pause-hook schedules", "sec 5 C09, 11.4"),
 "C11": ("exactly-once drop counters with canaries and early-drop detection on vector-level and Nucleo-level histories (lying and inconsistent iterators, panicking callbacks, pushes issued while unwinding, injectors outliving the matcher); counting global allocator for item types without drop glue; LeakSanitizer/ASan and Miri leak checker", "sec 5 C11, 11.4"),
 "C12": ("stream-tagged payloads: every snapshot after restart must be exactly the retained one or consist solely of new-stream items; directed restart schedules", "sec 5 C12"),
 "C13": ("bounded-progress monitor over an event log: all 9 orderings of the tick/worker hand-over forced with pause hooks, event-loop client with delays whose final snapshot must be the finished result, injector clause (visibility, one notification per call, callers on plain / application-pool / global-pool threads), an instance aged by 66 000 runs", "sec 5 C13, 11.4"),
 "C19": ("wrapper oracle around every tick (changed=false => identical snapshot; running=false => completed pushes accounted, current pattern)", "sec 5 C19"),
 "C20": ("exact model comparison of active_injectors() after every step of random handle/restart/tick histories", "sec 5 C20"),
})
NOTE.update({
 "C06": "trusted: the monitor's own Matcher with the same fixed Config recomputes scores; what is published 'now' bounds what was published at snapshot time",
 "C07": "trusted: from-scratch oracle = MultiPattern::score on a fresh Matcher over all items read back by index; bounded wait for quiescence (200 x 50 ms) - never reaching it is inconclusive",
 "C08": "trusted: yield points before every atomic operation of the vector; event stamps from one global atomic clock taken at the client boundary",
 "C09": "trusted: Miri's data-race detector / weak-memory emulation and TSan; only executions produced by the seeds are covered",
 "C11": "trusted: drop counters in the payload's own Drop; LSan/Miri for allocations; early-drop rule only uses injector handles for old streams",
 "C12": "trusted: payload stream tags written by the harness at injection time",
 "C13": "trusted: hooks at the hand-over points; verdict only once no background run is pending (final, not a timeout)",
 "C19": "trusted: completion counted when push/extend returned on its thread",
 "C20": "trusted: the harness' own handle bookkeeping",
})
TECH.update({
 "C06": "runtime monitoring: invariant checker on every snapshot + directed pause hooks + ASan/Miri",
 "C07": "runtime monitoring: quiescence differential oracle over histories",
 "C08": "runtime monitoring: history recording + sequential-model checker under a controlled scheduler; ASan; Miri",
 "C09": "sanitizers: Miri data-race detection (many seeds) + ThreadSanitizer",
 "C11": "runtime monitoring: exactly-once drop monitor + LeakSanitizer/ASan + Miri leak check",
 "C12": "runtime monitoring: stream-tag invariant on every snapshot + directed schedules",
 "C13": "runtime monitoring: event-log checker over forced hand-over orderings",
 "C19": "runtime monitoring: pre/post-state oracle around every tick",
 "C20": "runtime monitoring: reference-model comparison after every step",
})
ENGINE.update({"C06": "worker_mon", "C07": "worker_mon", "C08": "boxcar_mon", "C09": "boxcar_mon+worker_mon", "C11": "boxcar_mon+worker_mon", "C12": "worker_mon", "C13": "worker_mon", "C19": "worker_mon", "C20": "worker_mon"})
ENGINES.extend([
 {"name": "boxcar_mon", "path": "harness/src/bin/boxcar_mon.rs", "serves_properties": ["C08", "C09", "C11"], "kind_free_text": "vector-level monitors on the cfg-gated BoxcarVec facade: controlled scheduler (coroutines over verif yield points), stress, drop accounting, hook-free race shapes (native, ASan, TSan, Miri)"},
 {"name": "worker_mon", "path": "harness/src/bin/worker_mon.rs", "serves_properties": ["C06", "C07", "C09", "C11", "C12", "C13", "C15", "C18", "C19", "C20"], "kind_free_text": "Nucleo-level monitors: random and directed (pause-hook) histories, event-log checker, exact injector model (native, ASan, TSan, Miri)"},
])

if __name__ == '__main__':
    main()
