//! C15: pattern scores compose as a conjunction of atoms with negation.
use nucleo::pattern::MultiPattern;
use nucleo_matcher::pattern::{Atom, AtomKind, CaseMatching, Normalization, Pattern};
use nucleo_matcher::{Config, Matcher, Utf32Str, Utf32String};

use crate::jobj;
use crate::json::show_chars;
use crate::report::Report;
use crate::rng::{mix, Hasher64, Rng};

pub struct Opts {
    pub seed: u64,
    pub shard: u64,
    pub cases: u64,
    pub time_limit: f64,
    pub replay: Option<u64>,
}

// (includes KELVIN SIGN, ANGSTROM SIGN, LONG S and the letters they fold to)
const ALPHA: &[char] = &['a', 'b', 'c', 'A', 'B', ' ', '/', '-', '\u{e9}', '\u{c9}', '1', 'k', 's', '\u{212a}', '\u{212b}', '\u{17f}', '\u{e5}'];
const WORD_EXTRA: &[char] = &['\n', '\r'];

fn gen_word(rng: &mut Rng, max: usize) -> String {
    let len = rng.range(1, max);
    let mut w: String = (0..len).map(|_| *rng.pick(ALPHA)).filter(|c| *c != ' ').collect();
    if rng.chance(1, 12) {
        w.push(*rng.pick(WORD_EXTRA));
    }
    if w.is_empty() {
        "a".to_owned()
    } else {
        w
    }
}

fn gen_hay(rng: &mut Rng) -> String {
    let len = rng.range(0, 14);
    let mut s: String = (0..len).map(|_| *rng.pick(ALPHA)).collect();
    // line breaks: CR LF is one grapheme (held as code points even if the text is ASCII)
    if rng.chance(1, 8) {
        let ascii_only: String = s.chars().filter(|c| c.is_ascii()).collect();
        if rng.coin() {
            s = ascii_only;
        }
        let brk = *rng.pick(&["\r\n", "\r\n", "\n", "\r", "\n\r"]);
        let mut pos = rng.below(s.chars().count() + 1);
        let mut out = String::new();
        for c in s.chars() {
            if pos == 0 {
                out.push_str(brk);
            }
            pos = pos.wrapping_sub(1);
            out.push(c);
        }
        if pos == 0 {
            out.push_str(brk);
        }
        s = out;
    }
    s
}

fn gen_atom(rng: &mut Rng) -> Atom {
    let kind = *rng.pick(&[
        AtomKind::Fuzzy,
        AtomKind::Fuzzy,
        AtomKind::Substring,
        AtomKind::Prefix,
        AtomKind::Postfix,
        AtomKind::Exact,
    ]);
    let case = *rng.pick(&[CaseMatching::Respect, CaseMatching::Ignore, CaseMatching::Smart]);
    let norm = *rng.pick(&[Normalization::Never, Normalization::Smart]);
    let w = gen_word(rng, 3);
    let mut a = Atom::new(&w, case, norm, kind, false);
    a.negative = rng.chance(1, 4);
    a
}

fn base_config(rng: &mut Rng) -> Config {
    let mut c = if rng.coin() {
        Config::DEFAULT
    } else {
        Config::DEFAULT.match_paths()
    };
    c.prefer_prefix = rng.chance(1, 5);
    c
}

/// evaluates one atom on its own fresh matcher: (inner match score, appended indices)
fn eval_atom(atom: &Atom, cfg: &Config, hay: Utf32Str<'_>) -> (Option<u16>, Vec<u32>) {
    let mut m = Matcher::new(cfg.clone());
    let mut pos = atom.clone();
    pos.negative = false;
    let mut idx = Vec::new();
    let s = pos.indices(hay, &mut m, &mut idx);
    (s, idx)
}

fn dirty(m: &mut Matcher, rng: &mut Rng) {
    // unrelated calls between evaluations
    let h = Utf32String::from("some/unrelated Haystack_with-words 123");
    let n = Utf32String::from(*rng.pick(&["sh", "uh1", "w", "zz"]));
    m.config.ignore_case = rng.coin();
    m.config.normalize = rng.coin();
    let _ = m.fuzzy_match(h.slice(..), n.slice(..));
}

pub fn run(opts: &Opts, rep: &mut Report) {
    let range: Box<dyn Iterator<Item = u64>> = match opts.replay {
        Some(i) => Box::new(i..i + 1),
        None => Box::new(0..opts.cases),
    };
    let mut shared = Matcher::default();
    let mut cloned = Copies {
        target: Pattern::parse("", CaseMatching::Smart, Normalization::Smart),
        atom: Atom::new("x", CaseMatching::Smart, Normalization::Smart, AtomKind::Fuzzy, false),
        multi: Vec::new(),
    };
    for idx in range {
        if idx % 128 == 0 && rep.elapsed() > opts.time_limit {
            rep.note(format!("time limit reached after {idx} cases"));
            break;
        }
        let mut rng = Rng::new(mix(&[opts.seed, opts.shard, idx, 15]));
        let case_id = format!("{}:{}:{}", opts.seed, opts.shard, idx);
        rep.count("cases");
        // a panic inside the pattern API is a violation (attributed by its location), not a monitor crash
        let res = crate::refm::caught(|| one_case(opts, idx, &mut rng, &case_id, &mut shared, &mut cloned, rep));
        if let Err(msg) = res {
            shared = Matcher::default();
            let loc = msg.rsplit(" @ ").next().unwrap_or("").to_owned();
            if crate::refm::in_repository(&loc) {
                rep.violation("C15", "panic-in-pattern-api", format!("panic@{loc}"), jobj! {"message" => msg, "case_id" => case_id.clone()});
            } else {
                rep.inconclusive(format!("monitor panicked outside the repository code: {msg}"));
            }
        }
    }
}

/// long lived copies that are updated with `clone_from` case after case
pub struct Copies {
    target: Pattern,
    atom: Atom,
    multi: Vec<Option<MultiPattern>>,
}

fn one_case(opts: &Opts, idx: u64, rng: &mut Rng, case_id: &str, mut shared: &mut Matcher, cloned: &mut Copies, rep: &mut Report) {
    let case_id = case_id.to_owned();
    let _ = opts;
    {
        let mut rng = rng.clone();
        let cfg = base_config(&mut rng);
        shared.config = cfg.clone();
        // heavy cases: long needles over a long haystack so that the sum of the atom scores leaves the u16 range
        let heavy = idx % 128 == 127;
        let mut natoms = if rng.chance(1, 10) { 0 } else { rng.range(1, 6) };
        // the pattern object has a history: it was parsed / constructed / reparsed from some text (possibly with long
        // words) before its public `atoms` field is replaced; afterwards single atoms are edited in place as well
        let mut pattern = match rng.below(4) {
            0 => Pattern::parse("", CaseMatching::Smart, Normalization::Smart),
            1 => Pattern::parse(&format!("{} {}", gen_word(&mut rng, 12), gen_word(&mut rng, 3)), CaseMatching::Smart, Normalization::Smart),
            2 => Pattern::new(&format!("{} !{}", gen_word(&mut rng, 9), gen_word(&mut rng, 20)), CaseMatching::Ignore, Normalization::Never, AtomKind::Substring),
            _ => {
                let mut p = Pattern::parse(&gen_word(&mut rng, 5), CaseMatching::Respect, Normalization::Smart);
                p.reparse(&format!("^{}$ {}", gen_word(&mut rng, 16), gen_word(&mut rng, 2)), CaseMatching::Smart, Normalization::Smart);
                p
            }
        };
        let hay_s = if heavy {
            let len = rng.range(1500, 5000);
            (0..len).map(|_| *rng.pick(ALPHA)).collect::<String>()
        } else {
            gen_hay(&mut rng)
        };
        if heavy {
            natoms = rng.range(2, 40);
            let hc: Vec<char> = hay_s.chars().collect();
            pattern.atoms = (0..natoms)
                .map(|_| {
                    let len = rng.range(40, 900).min(hc.len());
                    let (kind, start) = match rng.below(8) {
                        0 => (AtomKind::Prefix, 0),
                        1 => (AtomKind::Postfix, hc.len() - len),
                        2 | 3 => (AtomKind::Substring, rng.below(hc.len() - len + 1)),
                        _ => (AtomKind::Fuzzy, rng.below(hc.len() - len + 1)),
                    };
                    let w: String = hc[start..start + len].iter().collect();
                    let case = *rng.pick(&[CaseMatching::Respect, CaseMatching::Ignore]);
                    let mut a = Atom::new(&w, case, Normalization::Never, kind, false);
                    a.negative = rng.chance(1, 40);
                    a
                })
                .collect();
            rep.count("c15.heavy-cases");
        } else {
            pattern.atoms = (0..natoms).map(|_| gen_atom(&mut rng)).collect();
            // in-place edits of the public field
            match rng.below(8) {
                0 if pattern.atoms.len() >= 2 => {
                    pattern.atoms.pop();
                }
                1 if !pattern.atoms.is_empty() => {
                    let k = rng.below(pattern.atoms.len());
                    pattern.atoms[k].negative = !pattern.atoms[k].negative;
                }
                2 if !pattern.atoms.is_empty() => {
                    let k = rng.below(pattern.atoms.len());
                    pattern.atoms[k] = gen_atom(&mut rng);
                }
                3 => pattern.atoms.insert(0, gen_atom(&mut rng)),
                _ => (),
            }
            natoms = pattern.atoms.len();
        }
        let hay = Utf32String::from(hay_s.as_str());
        let mut h = Hasher64::new();
        h.add_chars(&hay_s.chars().collect::<Vec<_>>());
        h.add_chars(&format!("{:?}", pattern.atoms).chars().collect::<Vec<_>>());
        if natoms > 0 {
            rep.distinct(h.finish());
        }

        // ---- reference: conjunction computed atom by atom on fresh matchers
        let mut exp_score: Option<u32> = Some(0);
        let mut exp_idx: Vec<u32> = Vec::new();
        for a in &pattern.atoms {
            let (s, idx) = eval_atom(a, &cfg, hay.slice(..));
            match (a.negative, s) {
                (false, Some(s)) => {
                    if let Some(t) = exp_score.as_mut() {
                        *t += s as u32;
                        exp_idx.extend(idx);
                    }
                }
                (false, None) | (true, Some(_)) => exp_score = None,
                (true, None) => (),
            }
            if exp_score.is_none() {
                break;
            }
        }
        rep.count(if exp_score.is_some() { "c15.matching" } else { "c15.non-matching" });
        if exp_score.map_or(false, |s| s > u16::MAX as u32) {
            rep.count("c15.sum-beyond-u16");
        }
        if pattern.atoms.iter().any(|a| a.negative) {
            rep.count("c15.with-negation");
        }
        if rng.coin() {
            dirty(&mut shared, &mut rng);
        }
        let got = pattern.score(hay.slice(..), &mut shared);
        if rng.coin() {
            dirty(&mut shared, &mut rng);
        }
        let mut junk = vec![9u32, 9, 9];
        let got_i = pattern.indices(hay.slice(..), &mut shared, &mut junk);
        let detail = |what: String| {
            jobj! {"atoms" => format!("{:?}", pattern.atoms), "hay" => show_chars(&hay_s.chars().collect::<Vec<_>>()),
                   "base_config" => format!("{cfg:?}"), "difference" => what, "case_id" => case_id.clone()}
        };
        if rep.want_sample() && idx % 19 == 3 {
            rep.sample(detail(format!("score {got:?}")));
        }
        if got != exp_score {
            rep.violation(
                "C15",
                "pattern-score-not-conjunction",
                format!("atoms={natoms} neg={}", pattern.atoms.iter().any(|a| a.negative)),
                detail(format!("Pattern::score {got:?}, composition {exp_score:?}")),
            );
        }
        if got_i != exp_score {
            rep.violation(
                "C15",
                "pattern-indices-score-differs",
                format!("atoms={natoms}"),
                detail(format!("Pattern::indices {got_i:?}, composition {exp_score:?}")),
            );
        } else if exp_score.is_some() && (junk.len() < 3 || junk[..3] != [9, 9, 9] || junk[3..] != exp_idx[..]) {
            rep.violation(
                "C15",
                "pattern-indices-not-concatenation",
                format!("atoms={natoms}"),
                detail(format!("indices {:?}, composition {:?}", &junk, exp_idx)),
            );
        }

        // ---- copies behave like the original: Clone / clone_from of patterns, atoms and multi patterns (the matcher keeps
        // long lived copies that are updated with clone_from)
        {
            cloned.target.clone_from(&pattern);
            let fresh_clone = pattern.clone();
            let got_cf = cloned.target.score(hay.slice(..), &mut shared);
            let got_cl = fresh_clone.score(hay.slice(..), &mut shared);
            rep.count("c15.copies-checked");
            if cloned.target.atoms != pattern.atoms || got_cf != exp_score || got_cl != exp_score || fresh_clone.atoms != pattern.atoms {
                rep.violation(
                    "C15",
                    "copy-of-a-pattern-behaves-differently",
                    format!("clone_from={} clone={}", got_cf != exp_score || cloned.target.atoms != pattern.atoms, got_cl != exp_score),
                    detail(format!(
                        "original scores {exp_score:?}; a long lived pattern updated with clone_from scores {got_cf:?} (atoms {:?}), a clone scores {got_cl:?}",
                        cloned.target.atoms
                    )),
                );
                cloned.target = Pattern::parse("", CaseMatching::Smart, Normalization::Smart);
            }
            if let Some(a) = pattern.atoms.first() {
                cloned.atom.clone_from(a);
                let inner = a.score(hay.slice(..), &mut shared);
                let got = cloned.atom.score(hay.slice(..), &mut shared);
                if cloned.atom != *a || got != inner {
                    rep.violation(
                        "C15",
                        "copy-of-a-pattern-behaves-differently",
                        "atom clone_from".into(),
                        detail(format!("atom {a:?} scores {inner:?}; a long lived atom updated with clone_from is {:?} and scores {got:?}", cloned.atom)),
                    );
                }
            }
        }

        // ---- single atom API incl. negation
        if let Some(a) = pattern.atoms.first() {
            let (inner, idx) = eval_atom(a, &cfg, hay.slice(..));
            let exp = if a.negative {
                if inner.is_some() { None } else { Some(0) }
            } else {
                inner
            };
            let got = a.score(hay.slice(..), &mut shared);
            let mut v = Vec::new();
            let got_i = a.indices(hay.slice(..), &mut shared, &mut v);
            rep.count("c15.atom-checked");
            if got != exp || got_i != exp || (!a.negative && exp.is_some() && v != idx) || (a.negative && !v.is_empty()) {
                rep.violation(
                    "C15",
                    "atom-score-or-negation",
                    format!("neg={} kind={:?}", a.negative, a.kind),
                    detail(format!("Atom::score {got:?} indices {got_i:?} {v:?}; expected {exp:?} {idx:?}")),
                );
            }
        }

        // ---- match_list: exactly the matching inputs, stably sorted by descending score
        if idx % 3 == 0 {
            let n_items = rng.range(0, 8);
            let mut items: Vec<String> = (0..n_items).map(|_| gen_hay(&mut rng)).collect();
            if n_items >= 2 && rng.coin() {
                let d = items[0].clone();
                items.push(d); // duplicates / ties
            }
            if heavy {
                // several long items whose scores differ, in an order that is not the sorted one
                items.insert(rng.below(items.len() + 1), hay_s.clone());
                items.push(format!("{}{hay_s}", rng.pick(&['x', ' ', '/'])));
                items.push(hay_s.clone());
                items.insert(rng.below(items.len() + 1), format!("{hay_s} {hay_s}"));
                let cut: String = hay_s.chars().skip(rng.range(1, 40)).collect();
                items.insert(rng.below(items.len() + 1), cut);
            }
            let mut expected: Vec<(usize, u32)> = Vec::new();
            for (k, it) in items.iter().enumerate() {
                let u = Utf32String::from(it.as_str());
                let mut total = Some(0u32);
                for a in &pattern.atoms {
                    let (s, _) = eval_atom(a, &cfg, u.slice(..));
                    match (a.negative, s) {
                        (false, Some(s)) => total = total.map(|t| t + s as u32),
                        (true, None) => (),
                        _ => total = None,
                    }
                    if total.is_none() {
                        break;
                    }
                }
                if let Some(t) = total {
                    expected.push((k, t));
                }
            }
            expected.sort_by(|a, b| b.1.cmp(&a.1)); // stable
            let expected_list: Vec<(String, u32)> =
                expected.iter().map(|&(k, s)| (items[k].clone(), s)).collect();
            let got: Vec<(String, u32)> = pattern
                .match_list(items.iter().map(|s| s.as_str()), &mut shared)
                .into_iter()
                .map(|(s, sc)| (s.to_owned(), sc))
                .collect();
            rep.count("c15.match-list-checked");
            if got != expected_list {
                rep.violation(
                    "C15",
                    "match-list",
                    format!("atoms={natoms}"),
                    jobj! {"atoms" => format!("{:?}", pattern.atoms), "items" => format!("{items:?}"),
                           "got" => format!("{got:?}"), "expected" => format!("{expected_list:?}"), "case_id" => case_id.clone()},
                );
            }
            // the items are produced lazily by user code that matches with another pattern while the list is drained
            if !heavy && idx % 9 == 0 && !pattern.atoms.is_empty() {
                let inner = Pattern::parse(*rng.pick(&["a", "b", "!c", "A", "-"]), CaseMatching::Smart, Normalization::Smart);
                let mut m2 = Matcher::new(cfg.clone());
                let eager: Vec<&str> = items.iter().map(|s| s.as_str()).filter(|s| !inner.match_list([*s], &mut m2).is_empty()).collect();
                let expected_nested: Vec<(String, u32)> = pattern.match_list(eager.iter().copied(), &mut shared).into_iter().map(|(s, sc)| (s.to_owned(), sc)).collect();
                let mut m3 = Matcher::new(cfg.clone());
                let lazy = items.iter().map(|s| s.as_str()).filter(|s| !inner.match_list([*s], &mut m3).is_empty());
                let got_nested: Vec<(String, u32)> = pattern.match_list(lazy, &mut shared).into_iter().map(|(s, sc)| (s.to_owned(), sc)).collect();
                rep.count("c15.match-list-drained-from-a-matching-iterator");
                if got_nested != expected_nested {
                    rep.violation(
                        "C15",
                        "match-list",
                        "items produced by an iterator that matches itself".into(),
                        jobj! {"atoms" => format!("{:?}", pattern.atoms), "items" => format!("{items:?}"), "got" => format!("{got_nested:?}"),
                               "expected" => format!("{expected_nested:?}"), "case_id" => case_id.clone()},
                    );
                }
            }
            // Atom::match_list
            if let Some(a) = pattern.atoms.first() {
                let mut exp: Vec<(usize, u16)> = Vec::new();
                for (k, it) in items.iter().enumerate() {
                    let u = Utf32String::from(it.as_str());
                    let (inner, _) = eval_atom(a, &cfg, u.slice(..));
                    let s = if a.negative {
                        if inner.is_some() { None } else { Some(0) }
                    } else {
                        inner
                    };
                    if let Some(s) = s {
                        exp.push((k, s));
                    }
                }
                exp.sort_by(|a, b| b.1.cmp(&a.1));
                let exp: Vec<(String, u16)> = exp.iter().map(|&(k, s)| (items[k].clone(), s)).collect();
                let got: Vec<(String, u16)> = a
                    .match_list(items.iter().map(|s| s.as_str()), &mut shared)
                    .into_iter()
                    .map(|(s, sc)| (s.to_owned(), sc))
                    .collect();
                if got != exp {
                    rep.violation(
                        "C15",
                        "atom-match-list",
                        format!("neg={}", a.negative),
                        jobj! {"atom" => format!("{a:?}"), "items" => format!("{items:?}"),
                               "got" => format!("{got:?}"), "expected" => format!("{exp:?}"), "case_id" => case_id.clone()},
                    );
                }
            }
        }

        // ---- multi column conjunction
        if idx % 4 == 1 {
            let cols = rng.range(1, 3);
            let mut mp = MultiPattern::new(cols);
            let mut texts = Vec::new();
            for c in 0..cols {
                let words = rng.range(0, 2);
                let mut t = String::new();
                for w in 0..words {
                    if w > 0 {
                        t.push(' ');
                    }
                    match rng.below(5) {
                        0 => t.push('!'),
                        1 => t.push('^'),
                        2 => t.push('\''),
                        _ => (),
                    }
                    t.push_str(&gen_word(&mut rng, 3));
                }
                mp.reparse(c, &t, CaseMatching::Smart, Normalization::Smart, false);
                texts.push(t);
            }
            let hays: Vec<Utf32String> = (0..cols).map(|_| Utf32String::from(gen_hay(&mut rng).as_str())).collect();
            let mut exp = Some(0u32);
            for c in 0..cols {
                let p = Pattern::parse(&texts[c], CaseMatching::Smart, Normalization::Smart);
                let mut fresh = Matcher::new(cfg.clone());
                match p.score(hays[c].slice(..), &mut fresh) {
                    Some(s) => exp = exp.map(|e| e + s),
                    None => exp = None,
                }
            }
            let got = mp.score(&hays, &mut shared);
            rep.count("c15.multi-column-checked");
            if cloned.multi.len() < 4 {
                cloned.multi.resize_with(4, || None);
            }
            let slot = &mut cloned.multi[cols];
            match slot {
                Some(t) => t.clone_from(&mp),
                None => *slot = Some(mp.clone()),
            }
            let got_copy = slot.as_ref().unwrap().score(&hays, &mut shared);
            if got_copy != exp {
                rep.violation(
                    "C15",
                    "copy-of-a-pattern-behaves-differently",
                    format!("multi pattern cols={cols}"),
                    jobj! {"texts" => format!("{texts:?}"), "haystacks" => format!("{hays:?}"),
                           "long_lived_copy_updated_with_clone_from" => format!("{got_copy:?}"), "expected" => format!("{exp:?}"), "case_id" => case_id.clone()},
                );
                *slot = None;
            }
            if got != exp {
                rep.violation(
                    "C15",
                    "multi-column",
                    format!("cols={cols}"),
                    jobj! {"texts" => format!("{texts:?}"), "haystacks" => format!("{hays:?}"),
                           "got" => format!("{got:?}"), "expected" => format!("{exp:?}"), "case_id" => case_id.clone()},
                );
            }
        }
    }
}
