//! C18: the cancellable parallel sort returns a sorted permutation.
use std::sync::atomic::{AtomicBool, AtomicI64, AtomicU64, AtomicUsize, Ordering};
use std::sync::Arc;

use nucleo::pattern::{CaseMatching, Normalization};
use nucleo::verif::{par_quicksort, set_hook, Point};
use nucleo::{Config, Nucleo};

use crate::jobj;
use crate::json::J;
use crate::report::Report;
use crate::rng::{mix, Hasher64, Rng};

pub struct Opts {
    pub seed: u64,
    pub shard: u64,
    pub cases: u64,
    pub time_limit: f64,
    pub max_len: usize,
    pub replay: Option<u64>,
    /// skip the pools with many threads and the end-to-end clause (Miri)
    pub small: bool,
    /// file that receives the description of the case being executed (a stack overflow or
    /// sanitizer abort kills the process before any result can be written)
    pub crumb: Option<String>,
}

const NPOINTS: usize = 64;
static HITS: [AtomicU64; NPOINTS] = [const { AtomicU64::new(0) }; NPOINTS];

fn hook(p: Point) {
    HITS[p as usize % NPOINTS].fetch_add(1, Ordering::Relaxed);
}

fn hits(p: Point) -> u64 {
    HITS[p as usize % NPOINTS].load(Ordering::Relaxed)
}

#[derive(Clone, Copy, Debug, PartialEq, Eq)]
struct El {
    key: u32,
    id: u32,
}

const SHAPES: &[&str] = &[
    "random", "sorted", "reversed", "organ-pipe", "saw-tooth", "all-equal", "two-keys", "ten-keys", "mostly-sorted",
    "killer", "push-front", "push-middle", "two-runs", "two-runs",
];

fn mo3_killer(n: usize) -> Vec<u32> {
    // median-of-3 killer sequence (Musser): 1,k+1,3,k+3,... 2,4,6,...
    let n2 = n - n % 2;
    let k = n2 / 2;
    let mut v = vec![0u32; n];
    for i in 0..k {
        if i % 2 == 0 {
            v[i] = (i + 1) as u32;
        } else {
            v[i] = (k + i + (i % 2)) as u32;
        }
    }
    for i in 0..k {
        v[k + i] = (2 * (i + 1)) as u32;
    }
    if n2 < n {
        v[n - 1] = n as u32;
    }
    v
}

fn gen_keys(rng: &mut Rng, n: usize, shape: &str) -> Vec<u32> {
    match shape {
        "sorted" => (0..n as u32).collect(),
        "reversed" => (0..n as u32).rev().collect(),
        "organ-pipe" => (0..n).map(|i| i.min(n - 1 - i) as u32).collect(),
        "saw-tooth" => {
            let p = rng.range(2, 40) as u32;
            (0..n as u32).map(|i| i % p).collect()
        }
        "all-equal" => vec![7; n],
        "two-keys" => (0..n).map(|_| rng.below(2) as u32).collect(),
        "ten-keys" => (0..n).map(|_| rng.below(10) as u32).collect(),
        "mostly-sorted" => {
            let mut v: Vec<u32> = (0..n as u32).collect();
            for _ in 0..rng.range(1, 4) {
                if n > 1 {
                    let a = rng.below(n);
                    let b = rng.below(n);
                    v.swap(a, b);
                }
            }
            v
        }
        "two-runs" => {
            // two ascending runs of different length
            let cut = if n > 1 { rng.range(1, n - 1) } else { 0 };
            (0..n).map(|i| if i < cut { (i * 2) as u32 } else { ((i - cut) * 2 + 1) as u32 }).collect()
        }
        "killer" => mo3_killer(n),
        "push-front" => {
            let mut v: Vec<u32> = (1..n as u32 + 1).collect();
            if n > 0 {
                v[n - 1] = 0;
            }
            v
        }
        "push-middle" => {
            let mut v: Vec<u32> = (0..n as u32).map(|i| i * 2).collect();
            if n > 0 {
                v[n - 1] = n as u32;
            }
            v
        }
        _ => (0..n).map(|_| rng.next_u64() as u32 % (n as u32 * 2 + 1)).collect(),
    }
}

/// McIlroy's adversary: produces keys that make this (deterministic) quicksort degenerate
fn antiqsort_keys(n: usize, pool: Option<&rayon::ThreadPool>) -> Vec<u32> {
    antiqsort_keys_with(n, pool, None)
}

/// `fixed`: keys that are known from the start (None = left to the adversary); the adversary's keys are all larger, so that
/// only a part of the slice - a sub-slice after the first partitions - degenerates
fn antiqsort_keys_with(n: usize, pool: Option<&rayon::ThreadPool>, fixed: Option<&[Option<u32>]>) -> Vec<u32> {
    const GAS: i64 = i64::MAX;
    let val: Vec<AtomicI64> = (0..n).map(|i| AtomicI64::new(fixed.and_then(|f| f[i]).map_or(GAS, |k| k as i64))).collect();
    let nsolid = AtomicI64::new(if fixed.is_some() { n as i64 } else { 0 });
    let candidate = AtomicUsize::new(0);
    let mut ids: Vec<u32> = (0..n as u32).collect();
    let flag = AtomicBool::new(false);
    let cmp = |a: &u32, b: &u32| {
        let (x, y) = (*a as usize, *b as usize);
        let (vx, vy) = (val[x].load(Ordering::Relaxed), val[y].load(Ordering::Relaxed));
        if vx == GAS && vy == GAS {
            // unlike McIlroy's original the first argument is always frozen: that answers
            // "less" to the adjacent-pair scans of partial_insertion_sort, which otherwise
            // freezes the whole slice in sorted order and defeats the adversary
            val[x].store(nsolid.fetch_add(1, Ordering::Relaxed), Ordering::Relaxed);
        }
        let (vx, vy) = (val[x].load(Ordering::Relaxed), val[y].load(Ordering::Relaxed));
        if vx == GAS {
            candidate.store(x, Ordering::Relaxed);
        } else if vy == GAS {
            candidate.store(y, Ordering::Relaxed);
        }
        vx < vy
    };
    match pool {
        Some(pool) => pool.install(|| par_quicksort(&mut ids, cmp, &flag)),
        None => par_quicksort(&mut ids, cmp, &flag),
    };
    let mut next = nsolid.load(Ordering::Relaxed);
    val.iter()
        .map(|v| {
            let x = v.load(Ordering::Relaxed);
            if x == GAS {
                next += 1;
                next as u32
            } else {
                x as u32
            }
        })
        .collect()
}

fn pick_len(rng: &mut Rng, max_len: usize) -> usize {
    let fixed = [0usize, 1, 2, 3, 19, 20, 21, 22, 49, 50, 51, 127, 128, 129, 257, 1999, 2000, 2001, 4001, 4002, 8003];
    let n = match rng.below(10) {
        0..=2 => rng.below(24),
        3 | 4 => *rng.pick(&fixed),
        5 | 6 => rng.range(20, 600),
        7 => rng.range(600, 5000),
        8 => rng.range(4000, 30000),
        _ => *rng.pick(&[100_000usize, 250_000, 500_000]),
    };
    n.min(max_len)
}

pub fn run(opts: &Opts, rep: &mut Report) {
    set_hook(Some(hook));
    let thread_counts: &[usize] = if opts.small { &[1] } else { &[1, 2, 4, 16] };
    let pools: Vec<Option<rayon::ThreadPool>> = thread_counts
        .iter()
        .map(|&t| (!opts.small).then(|| rayon::ThreadPoolBuilder::new().num_threads(t).build().unwrap()))
        .collect();
    let range: Box<dyn Iterator<Item = u64>> = match opts.replay {
        Some(i) => Box::new(i..i + 1),
        None => Box::new(0..opts.cases),
    };
    for idx in range {
        if rep.elapsed() > opts.time_limit {
            rep.note(format!("time limit reached after {idx} cases"));
            break;
        }
        let mut rng = Rng::new(mix(&[opts.seed, opts.shard, idx, 18]));
        let n = pick_len(&mut rng, opts.max_len);
        let pi = rng.below(pools.len());
        let pool = pools[pi].as_ref();
        let threads = thread_counts[pi];
        let mut shape = *rng.pick(SHAPES);
        if let Some(c) = &opts.crumb {
            let adversary = idx % 9 == 4 && n >= 64;
            let _ = std::fs::write(
                c,
                format!("case {}:{}:{} len={n} shape={} threads={threads}", opts.seed, opts.shard, idx, if adversary { "antiquicksort" } else { shape }),
            );
        }
        // the shape the worker produces for a selective pattern: a large majority of identical placeholder keys
        // and a few thousand distinct real keys; the flag is raised around the time the distinct side is sorted
        let sentinel_heavy = idx % 7 == 3 && opts.max_len >= 40_000 && !opts.small;
        let (n, short_side) = if sentinel_heavy {
            let n = rng.range(33_000, 160_000);
            (n, rng.range(2100, (n / 8).max(2200)))
        } else {
            (n, 0)
        };
        let keys = if sentinel_heavy {
            shape = "sentinel-heavy";
            let placeholder = if rng.coin() { u32::MAX } else { 0 };
            let mut v = vec![placeholder; n];
            // the real keys sit at random positions (the parallel scan leaves them in index order)
            for _ in 0..short_side {
                let p = rng.below(n);
                v[p] = 1 + rng.next_u64() as u32 % 1_000_000;
            }
            v
        } else if idx % 9 == 4 && n >= 64 {
            shape = "antiquicksort";
            antiqsort_keys(n, pools[0].as_ref())
        } else if idx % 9 == 5 && (64..=6000).contains(&n) {
            // only a quarter to a half of the elements (at random positions) belongs to the adversary: the part of the slice that
            // exhausts the bad-pivot budget is the shorter side of an earlier partition
            shape = "antiquicksort-in-a-part";
            let share = rng.range(20, 48);
            let fixed: Vec<Option<u32>> = (0..n).map(|_| (rng.below(100) >= share).then(|| rng.below(n) as u32)).collect();
            antiqsort_keys_with(n, pools[0].as_ref(), Some(&fixed))
        } else {
            let mut keys = gen_keys(&mut rng, n, shape);
            // every arrangement is also run with its keys collapsed to a few levels (ties inside a nearly sorted structure)
            if rng.chance(2, 5) && !keys.is_empty() {
                let levels = *rng.pick(&[2u64, 3, 6, 10, 30]);
                let max = *keys.iter().max().unwrap() as u64 + 1;
                for k in keys.iter_mut() {
                    *k = (*k as u64 * levels / max) as u32;
                }
                rep.count("c18.cases-with-keys-collapsed-to-few-levels");
            }
            keys
        };
        let input: Vec<El> = keys.iter().enumerate().map(|(i, &k)| El { key: k, id: i as u32 }).collect();
        let total_order = rng.coin();
        // cancellation: 0 none, 1 pre-raised, 2 at k-th comparison, 3 by a second thread
        let cancel_mode = match rng.below(10) {
            0..=4 => 0,
            5 => 1,
            6..=8 => 2,
            _ => 3,
        };
        let est_cmp = (n as f64 * ((n.max(2)) as f64).log2()).max(1.0) as u64;
        let (cancel_mode, k) = if sentinel_heavy && rng.chance(3, 4) {
            // partitioning costs about n comparisons per level, sorting the distinct side short*log2(short)
            let lo = n / 2;
            let hi = 3 * n + short_side * 14;
            (2, (lo + rng.below(hi - lo)) as u64)
        } else {
            (cancel_mode, if cancel_mode == 2 { 1 + rng.below(est_cmp as usize + 1) as u64 } else { u64::MAX })
        };
        let flag = AtomicBool::new(cancel_mode == 1);
        let raised = AtomicBool::new(cancel_mode == 1);
        let calls = AtomicU64::new(0);
        let is_less = |a: &El, b: &El| {
            let c = calls.fetch_add(1, Ordering::Relaxed) + 1;
            if c == k {
                raised.store(true, Ordering::Relaxed);
                flag.store(true, Ordering::Relaxed);
            }
            if total_order {
                (a.key, a.id) < (b.key, b.id)
            } else {
                a.key < b.key
            }
        };
        let mut v = input.clone();
        let before: Vec<u64> = (0..NPOINTS).map(|i| HITS[i].load(Ordering::Relaxed)).collect();
        let spin = rng.below(20_000);
        let reported = std::thread::scope(|s| {
            if cancel_mode == 3 {
                let flag = &flag;
                let raised = &raised;
                s.spawn(move || {
                    for _ in 0..spin {
                        std::hint::spin_loop();
                    }
                    raised.store(true, Ordering::Relaxed);
                    flag.store(true, Ordering::Relaxed);
                });
            }
            if opts.small {
                // no thread pool: slices this small never reach rayon::join (used under Miri)
                par_quicksort(&mut v, is_less, &flag)
            } else {
                pool.unwrap().install(|| par_quicksort(&mut v, is_less, &flag))
            }
        });
        let was_raised = raised.load(Ordering::Relaxed);
        rep.count("cases");
        rep.count(&format!("shape.{shape}"));
        rep.count(&format!("threads.{threads}"));
        rep.count(if reported { "c18.reported-cancelled" } else { "c18.reported-not-cancelled" });
        if was_raised {
            rep.count("c18.flag-raised");
        }
        if was_raised && !reported {
            rep.count("c18.flag-raised-but-completed");
        }
        rep.max("c18.max-len", n as u64);
        let sorted_heapsort = hits(Point::SortHeapsort) > before[Point::SortHeapsort as usize];
        if sorted_heapsort {
            rep.count("c18.cases-with-heapsort");
        }
        if n > 20 {
            let mut h = Hasher64::new();
            h.add(n as u64);
            for e in input.iter().take(64) {
                h.add(e.key as u64);
            }
            h.add(cancel_mode as u64 * 31 + threads as u64);
            h.add(k);
            rep.distinct(h.finish());
        }
        let desc = || {
            jobj! {"len" => n, "shape" => shape, "threads" => threads, "total_order" => total_order,
                   "cancel_mode" => ["none", "pre-raised", "at-kth-comparison", "second-thread"][cancel_mode], "k" => if k == u64::MAX { J::Null } else { J::UInt(k) },
                   "comparisons" => calls.load(Ordering::Relaxed), "reported_cancelled" => reported, "flag_raised" => was_raised,
                   "case_id" => format!("{}:{}:{}", opts.seed, opts.shard, idx),
                   "keys_prefix" => keys.iter().take(40).map(|&k| k as u64).collect::<Vec<u64>>()}
        };
        if rep.want_sample() && idx % 5 == 2 {
            rep.sample(desc());
        }
        // permutation
        let mut ids: Vec<u32> = v.iter().map(|e| e.id).collect();
        ids.sort_unstable();
        let perm = ids.len() == n && ids.iter().enumerate().all(|(i, &x)| x == i as u32) && v.iter().all(|e| keys[e.id as usize] == e.key);
        if !perm {
            rep.violation("C18", "not-a-permutation", format!("cancel={cancel_mode} reported={reported}"), desc());
        }
        if reported && !was_raised {
            rep.violation("C18", "cancelled-without-flag", format!("shape={shape}"), desc());
        }
        if !reported {
            let sorted = v.windows(2).all(|w| {
                if total_order {
                    (w[0].key, w[0].id) <= (w[1].key, w[1].id)
                } else {
                    w[0].key <= w[1].key
                }
            });
            if !sorted {
                rep.violation(
                    "C18",
                    "not-sorted",
                    format!("flag_raised={was_raised} len>2000={}", n > 2000),
                    desc(),
                );
            }
        }
    }
    // which phases of the sort did the workload reach
    for (name, p) in [
        ("phase.insertion", Point::SortInsertion),
        ("phase.heapsort", Point::SortHeapsort),
        ("phase.break-patterns", Point::SortBreakPatterns),
        ("phase.partial-insertion", Point::SortPartialInsertion),
        ("phase.partition-equal", Point::SortPartitionEqual),
        ("phase.partition", Point::SortPartition),
        ("phase.cancel-observed", Point::SortCanceled),
        ("phase.parallel-join", Point::SortJoin),
    ] {
        rep.add(name, hits(p));
    }
    if !opts.small && opts.replay.is_none() {
        end_to_end(opts, rep);
    }
    set_hook(None);
}

/// one item set + pattern through Nucleo with 1/2/4/16 threads must give identical matches
fn end_to_end(opts: &Opts, rep: &mut Report) {
    let mut rng = Rng::new(mix(&[opts.seed, opts.shard, 1818]));
    let n_items = 30_000usize;
    let alphabet: Vec<char> = "ab/_ cA".chars().collect();
    let items: Vec<String> = (0..n_items)
        .map(|_| {
            let l = rng.range(1, 9);
            (0..l).map(|_| *rng.pick(&alphabet)).collect()
        })
        .collect();
    let pattern = *rng.pick(&["ab", "a", "b c", "a/"]);
    let mut results: Vec<(usize, Vec<(u32, u32)>)> = Vec::new();
    for threads in [1usize, 2, 4, 16] {
        let mut nucleo: Nucleo<u32> = Nucleo::new(Config::DEFAULT, Arc::new(|| ()), Some(threads), 1);
        let inj = nucleo.injector();
        for (i, s) in items.iter().enumerate() {
            inj.push(i as u32, |_, cols| cols[0] = s.as_str().into());
        }
        drop(inj);
        nucleo.pattern.reparse(0, pattern, CaseMatching::Smart, Normalization::Smart, false);
        let mut guard = 0;
        loop {
            let st = nucleo.tick(50);
            guard += 1;
            if !st.running || guard > 400 {
                break;
            }
        }
        if guard > 400 {
            rep.inconclusive("end-to-end run did not become quiescent");
            return;
        }
        let snap = nucleo.snapshot();
        results.push((threads, snap.matches().iter().map(|m| (m.score, m.idx)).collect()));
    }
    rep.count("c18.end-to-end-item-sets");
    rep.add("c18.end-to-end-matches", results[0].1.len() as u64);
    for (t, r) in &results[1..] {
        if *r != results[0].1 {
            let pos = r.iter().zip(&results[0].1).position(|(a, b)| a != b);
            rep.violation(
                "C18",
                "match-order-depends-on-thread-count",
                format!("threads={t}"),
                jobj! {"pattern" => pattern, "items" => n_items, "threads" => *t, "first_difference_at" => pos.map(|p| p as u64),
                       "len_1_thread" => results[0].1.len(), "len_t_threads" => r.len()},
            );
        }
    }
}
