//! Nucleo level monitors (real `Nucleo`, real thread pool): C06 C07 C12 C19 C20 and the
//! building blocks for C09/C11/C13 at this level.
use std::collections::{HashMap, HashSet};
use std::sync::atomic::{AtomicBool, AtomicU64, Ordering};
use std::sync::{Arc, Condvar, Mutex};
use std::time::{Duration, Instant};

use nucleo::pattern::{CaseMatching, Normalization};
use nucleo::verif::{set_hook, Point};
use nucleo::{Config, Injector, Matcher, Nucleo, Snapshot, Status, Utf32String};

use crate::jobj;
use crate::json::J;
use crate::m_boxcar::{canary, Registry};
use crate::report::Report;
use crate::rng::{mix, Hasher64, Rng};
use crate::sched::stamp;

// ---------------------------------------------------------------------------------- payload

// over-aligned on purpose: the vector computes the entry layout itself
#[repr(align(16))]
pub struct Payload {
    pub id: u32,
    pub stream: u32,
    pub canary: u64,
    pub reg: Arc<Registry>,
}

impl Payload {
    pub fn new(id: u32, stream: u32, reg: &Arc<Registry>) -> Payload {
        reg.created[id as usize].fetch_add(1, Ordering::Relaxed);
        Payload {
            id,
            stream,
            canary: canary(id),
            reg: reg.clone(),
        }
    }
}

impl Drop for Payload {
    fn drop(&mut self) {
        if self.canary != canary(self.id) {
            self.reg.bad_canary.fetch_add(1, Ordering::Relaxed);
            return;
        }
        if self.reg.drops[self.id as usize].fetch_add(1, Ordering::Relaxed) != 0 {
            self.reg.double_drop.fetch_add(1, Ordering::Relaxed);
        }
        // early drop: some handle that can reach this stream is still alive
        if stream_handles(&self.reg, self.stream) > 0 && !self.reg.exempt[self.id as usize].load(Ordering::Relaxed) {
            self.reg.early_drops.fetch_add(1, Ordering::Relaxed);
        }
        unsafe { std::ptr::write_volatile(&mut self.canary, 0xDEAD_DEAD_DEAD_DEAD) };
        if self.reg.panic_on_drop[self.id as usize].swap(false, Ordering::Relaxed) && !std::thread::panicking() {
            panic!("{}", crate::m_boxcar::DROP_PANIC);
        }
    }
}

// per stream live handle counters live in a global table (the registry is shared by payloads)
static STREAM_HANDLES: Mutex<Option<HashMap<(usize, u32), i64>>> = Mutex::new(None);

fn reg_key(reg: &Arc<Registry>) -> usize {
    Arc::as_ptr(reg) as usize
}

pub fn stream_handles(reg: &Arc<Registry>, stream: u32) -> i64 {
    STREAM_HANDLES
        .lock()
        .unwrap()
        .as_ref()
        .and_then(|m| m.get(&(reg_key(reg), stream)).copied())
        .unwrap_or(0)
}

pub fn stream_handles_add(reg: &Arc<Registry>, stream: u32, delta: i64) {
    let mut g = STREAM_HANDLES.lock().unwrap();
    *g.get_or_insert_with(HashMap::new).entry((reg_key(reg), stream)).or_insert(0) += delta;
}

pub fn stream_handles_clear(reg: &Arc<Registry>) {
    let mut g = STREAM_HANDLES.lock().unwrap();
    if let Some(m) = g.as_mut() {
        let k = reg_key(reg);
        m.retain(|key, _| key.0 != k);
    }
}

const CORPUS: &[&str] = &[
    "foo", "foo$a", "foo$ab", "xfoo", "a b", "a\\b", "bar", "baz", "foobar", "Foo", "f\u{f3}o", "a", "ab", "abc", "b a", "$", "foo$", "oof",
    "fo", "o", "foo bar", "bar/foo", "a\\ b", "!foo", "^foo", "fooa", "afoo", "b", "ba r", "r\r\nab", "FOO$A", "ab$", "a$b", "x", "\u{e9}ab",
    "\u{c9}ab", "\u{e9}a b", "f\u{d3}o",
];

/// matcher column text is a pure function of (id, column)
pub fn item_text(id: u32, col: usize) -> String {
    let w = CORPUS[(id as usize * 7 + col * 3) % CORPUS.len()];
    match id % 4 {
        0 => w.to_owned(),
        1 => format!("{w}{}", id % 10),
        2 => format!("{}{w}", ["", "x", "a", "/"][(id as usize / 4) % 4]),
        _ => format!("{w} {}", CORPUS[(id as usize / 3) % CORPUS.len()]),
    }
}

pub fn fill_cols(id: u32, cols: &mut [Utf32String]) {
    for (c, col) in cols.iter_mut().enumerate() {
        *col = item_text(id, c).into();
    }
}

pub fn verify_payload(item: &nucleo::Item<'_, Payload>, ncols: usize) -> Result<(u32, u32), String> {
    let addr = item.data as *const Payload as usize;
    if addr % std::mem::align_of::<Payload>() != 0 {
        return Err(format!("item reference {addr:#x} is not aligned to {}", std::mem::align_of::<Payload>()));
    }
    let id = item.data.id;
    if item.data.canary != canary(id) {
        return Err(format!("payload canary invalid ({:#x})", item.data.canary));
    }
    if item.matcher_columns.len() != ncols {
        return Err(format!("{} matcher columns instead of {ncols}", item.matcher_columns.len()));
    }
    for (c, col) in item.matcher_columns.iter().enumerate() {
        let expected: Utf32String = item_text(id, c).into();
        if *col != expected {
            return Err(format!("column {c} of id {id} is {col:?}, expected {expected:?}"));
        }
    }
    Ok((id, item.data.stream))
}

// ---------------------------------------------------------------------------------- hook control

#[derive(Clone, Copy, Debug, PartialEq, Eq)]
pub enum EvKind {
    Notify,
    Point(Point),
    TickBegin,
    TickEnd { changed: bool, running: bool },
}

pub struct HookCtl {
    /// slot 0: worker (`Run*`) points, slot 1: `Tick*` points
    /// slot 2: a second background run (of another matcher) while slot 0 is occupied
    pub pause_at: [Option<Point>; 3],
    pub paused: [Option<Point>; 3],
    pub release: [bool; 3],
    pub pause_timeouts: u64,
    pub events: Vec<(u64, EvKind)>,
    pub record: bool,
    pub delay_seed: u64,
    pub hits: HashMap<Point, u64>,
}

static CTL: Mutex<Option<HookCtl>> = Mutex::new(None);
static CTL_CV: Condvar = Condvar::new();
static DELAY_ON: AtomicBool = AtomicBool::new(false);
static DELAY_COUNTER: AtomicU64 = AtomicU64::new(0);

fn slot_of(p: Point) -> Option<usize> {
    use Point::*;
    match p {
        RunEntry | RunAfterClearedReset | RunAfterResetMatches | RunAfterScan | RunBeforeSort | RunAfterSort | RunBeforeNotifyCheck
        | RunAfterNotify | RunReturn => Some(0),
        TickAfterClearNotify | TickBeforeTryLock | TickTryLockFailed | TickAfterRearm | TickLockTaken | TickBeforeSpawn => Some(1),
        _ => None,
    }
}

pub fn with_ctl<R>(f: impl FnOnce(&mut HookCtl) -> R) -> R {
    let mut g = CTL.lock().unwrap();
    let ctl = g.get_or_insert_with(|| HookCtl {
        pause_at: [None; 3],
        paused: [None; 3],
        release: [false; 3],
        pause_timeouts: 0,
        events: Vec::new(),
        record: false,
        delay_seed: 0,
        hits: HashMap::new(),
    });
    f(ctl)
}

pub struct Trigger {
    from: Point,
    to: Point,
    in_phase: bool,
    nth: u64,
    seen: u64,
    fired: bool,
    gate: Arc<(Mutex<bool>, Condvar)>,
    published: Arc<AtomicBool>,
}

static TRIGGER: Mutex<Option<Trigger>> = Mutex::new(None);
static TRIGGER_ARMED: AtomicBool = AtomicBool::new(false);

/// (reads seen in the phase, fired) of the trigger armed last; disarms it
pub fn disarm_trigger() -> (u64, bool) {
    TRIGGER_ARMED.store(false, Ordering::SeqCst);
    TRIGGER.lock().unwrap().take().map_or((0, false), |t| (t.seen, t.fired))
}

fn trigger_hook(p: Point) {
    let fire = {
        let mut g = TRIGGER.lock().unwrap();
        let Some(t) = g.as_mut() else { return };
        if p == t.from {
            t.in_phase = true;
            None
        } else if p == t.to {
            t.in_phase = false;
            None
        } else if t.in_phase
            && !t.fired
            && matches!(p, Point::VecGetBeforeBucketLoad | Point::VecGetBeforeActiveLoad | Point::IterBeforeBucketLoad | Point::IterBeforeActiveLoad)
        {
            t.seen += 1;
            if t.seen == t.nth {
                t.fired = true;
                Some((t.gate.clone(), t.published.clone()))
            } else {
                None
            }
        } else {
            None
        }
    };
    if let Some((gate, published)) = fire {
        {
            let (m, cv) = &*gate;
            *m.lock().unwrap() = true;
            cv.notify_all();
        }
        let deadline = Instant::now() + Duration::from_secs(3);
        while !published.load(Ordering::SeqCst) && Instant::now() < deadline {
            std::thread::yield_now();
        }
    }
}

pub fn worker_hook(p: Point) {
    if TRIGGER_ARMED.load(Ordering::Relaxed) {
        trigger_hook(p);
    }
    let Some(slot) = slot_of(p) else {
        // vector / sort points are hit for every item: only rare and short delays there
        if DELAY_ON.load(Ordering::Relaxed) {
            let c = DELAY_COUNTER.fetch_add(1, Ordering::Relaxed);
            let mut st = c.wrapping_mul(0x9E37_79B9_7F4A_7C15) ^ (p as u64) << 17;
            let r = crate::rng::splitmix64(&mut st);
            match r % 2003 {
                0 => std::thread::sleep(Duration::from_micros(30 + r % 100)),
                1..=4 => std::thread::yield_now(),
                5..=40 => {
                    for _ in 0..(r >> 8) % 400 {
                        std::hint::spin_loop()
                    }
                }
                _ => (),
            }
        }
        return;
    };
    if DELAY_ON.load(Ordering::Relaxed) {
        random_delay(p);
    }
    let mut g = CTL.lock().unwrap();
    let Some(ctl) = g.as_mut() else { return };
    *ctl.hits.entry(p).or_insert(0) += 1;
    if ctl.record {
        ctl.events.push((stamp(), EvKind::Point(p)));
    }
    // a second run parks in slot 2 (only looked at for worker points that slot 0 does not claim)
    let slot = if slot == 0 && ctl.pause_at[0] != Some(p) && ctl.pause_at[2] == Some(p) { 2 } else { slot };
    if ctl.pause_at[slot] == Some(p) {
        if std::env::var_os("C20_TRACE").is_some() {
            eprintln!("{:?} hook: pausing at {p:?} (release flag {:?})", Instant::now(), ctl.release);
        }
        ctl.paused[slot] = Some(p);
        ctl.pause_at[slot] = None;
        CTL_CV.notify_all();
        let deadline = Instant::now() + Duration::from_secs(4);
        loop {
            let ctl = g.as_mut().unwrap();
            if ctl.release[slot] {
                ctl.release[slot] = false;
                ctl.paused[slot] = None;
                if std::env::var_os("C20_TRACE").is_some() {
                    eprintln!("{:?} hook: released", Instant::now());
                }
                break;
            }
            let now = Instant::now();
            if now >= deadline {
                ctl.pause_timeouts += 1;
                if std::env::var_os("C20_TRACE").is_some() {
                    eprintln!("pause timeout in slot {slot} at {p:?}");
                }
                ctl.paused[slot] = None;
                break;
            }
            let (ng, _) = CTL_CV.wait_timeout(g, deadline - now).unwrap();
            g = ng;
        }
        CTL_CV.notify_all();
    }
}

fn random_delay(p: Point) {
    let c = DELAY_COUNTER.fetch_add(1, Ordering::Relaxed);
    let mut st = c.wrapping_mul(0x9E37_79B9_7F4A_7C15) ^ (p as u64) << 17;
    let r = crate::rng::splitmix64(&mut st);
    match r % 61 {
        0 => std::thread::sleep(Duration::from_micros(50 + r % 400)),
        1 | 2 => std::thread::yield_now(),
        3..=6 => {
            for _ in 0..(r >> 8) % 3000 {
                std::hint::spin_loop()
            }
        }
        _ => (),
    }
}

pub fn set_delays(on: bool) {
    DELAY_ON.store(on, Ordering::Relaxed);
}

/// asks the next thread that reaches `p` to block there
pub fn pause_at(p: Point) {
    let slot = slot_of(p).expect("not a pausable point");
    with_ctl(|c| {
        c.pause_at[slot] = Some(p);
        c.release[slot] = false;
    });
}

/// like `pause_at` for a second background run while slot 0 is in use (release with `release(2)`)
pub fn pause_second_run_at(p: Point) {
    with_ctl(|c| {
        c.pause_at[2] = Some(p);
        c.release[2] = false;
    });
}

pub fn cancel_pause(slot: usize) {
    with_ctl(|c| c.pause_at[slot] = None);
}

/// waits until a thread is blocked at the requested point of `slot`
pub fn wait_paused(slot: usize, ms: u64) -> bool {
    let deadline = Instant::now() + Duration::from_millis(ms);
    let mut g = CTL.lock().unwrap();
    loop {
        if g.as_ref().map_or(false, |c| c.paused[slot].is_some()) {
            return true;
        }
        let now = Instant::now();
        if now >= deadline {
            if std::env::var_os("C20_TRACE").is_some() {
                eprintln!("wait_paused({slot}, {ms}) timed out; pause_at={:?}", g.as_ref().map(|c| c.pause_at));
            }
            return false;
        }
        let (ng, _) = CTL_CV.wait_timeout(g, deadline - now).unwrap();
        g = ng;
    }
}

pub fn release(slot: usize) {
    let mut g = CTL.lock().unwrap();
    if let Some(c) = g.as_mut() {
        if c.paused[slot].is_some() {
            c.release[slot] = true;
        }
        c.pause_at[slot] = None;
    }
    CTL_CV.notify_all();
    // wait until the thread left the pause
    let deadline = Instant::now() + Duration::from_secs(5);
    while g.as_ref().map_or(false, |c| c.paused[slot].is_some()) && Instant::now() < deadline {
        let (ng, _) = CTL_CV.wait_timeout(g, Duration::from_millis(50)).unwrap();
        g = ng;
    }
}

/// releases the thread paused in `slot` and asks it to pause again at `next`
pub fn release_to(slot: usize, next: Option<Point>) {
    let mut g = CTL.lock().unwrap();
    if let Some(c) = g.as_mut() {
        c.pause_at[slot] = next;
        if c.paused[slot].is_some() {
            c.release[slot] = true;
        }
    }
    CTL_CV.notify_all();
    let deadline = Instant::now() + Duration::from_secs(5);
    // wait until the thread left the old pause (it may already sit in the next one)
    while g.as_ref().map_or(false, |c| c.release[slot]) && Instant::now() < deadline {
        let (ng, _) = CTL_CV.wait_timeout(g, Duration::from_millis(50)).unwrap();
        g = ng;
    }
}

pub fn release_all() {
    release(0);
    release(1);
    release(2);
}

pub fn hits(p: Point) -> u64 {
    with_ctl(|c| c.hits.get(&p).copied().unwrap_or(0))
}

/// waits until point `p` has been hit more than `before` times
pub fn wait_hit(p: Point, before: u64, ms: u64) -> bool {
    let deadline = Instant::now() + Duration::from_millis(ms);
    loop {
        if hits(p) > before {
            return true;
        }
        if Instant::now() >= deadline {
            return false;
        }
        std::thread::sleep(Duration::from_micros(200));
    }
}

/// waits until every background run spawned so far has returned (needs recording of hits, i.e. the hook installed)
pub fn wait_no_run_pending(ms: u64) -> bool {
    let deadline = Instant::now() + Duration::from_millis(ms);
    loop {
        if hits(Point::TickBeforeSpawn) <= hits(Point::RunReturn) {
            // the closure still has to drop its guard after RunReturn
            std::thread::sleep(Duration::from_micros(200));
            return true;
        }
        if Instant::now() >= deadline {
            return false;
        }
        std::thread::sleep(Duration::from_micros(100));
    }
}

pub fn record_event(k: EvKind) -> u64 {
    let s = stamp();
    with_ctl(|c| {
        if c.record {
            c.events.push((s, k))
        }
    });
    s
}

pub fn reset_ctl(record: bool) {
    with_ctl(|c| {
        c.pause_at = [None; 3];
        c.release = [false; 3];
        c.events.clear();
        c.record = record;
        c.hits.clear();
    });
}

// ---------------------------------------------------------------------------------- world

pub struct Handle {
    pub stream: u32,
    pub inj: Injector<Payload>,
}

#[derive(Clone)]
pub struct Frozen {
    pub matches: Vec<(u32, u32)>,
    pub item_count: u32,
    pub pattern: String,
    pub stream: Option<u32>,
    /// payload ids of (up to 300 of) the matched items, for the retained snapshot of restart(false)
    pub ids: Vec<u32>,
}

pub struct World {
    pub reg: Arc<Registry>,
    pub nucleo: Option<Nucleo<Payload>>,
    pub config: Config,
    pub threads: usize,
    pub cols: usize,
    pub cur: u32,
    pub handles: Vec<Handle>,
    pub texts: Vec<String>,
    /// case matching / normalization of the last reparse per column
    pub modes: Vec<(CaseMatching, Normalization)>,
    pub next_id: Arc<std::sync::atomic::AtomicU32>,
    /// pushes invoked / completed per stream (completed = the call returned)
    pub invoked: Arc<Mutex<HashMap<u32, u32>>>,
    pub completed: Arc<Mutex<HashMap<u32, u32>>>,
    pub notify_count: Arc<AtomicU64>,
    /// injector clones held by helper threads (held writers, bursts) per stream; incremented
    /// before the clone is made and decremented after it is dropped
    pub aux: Arc<Mutex<HashMap<u32, i64>>>,
    /// what the snapshot must look like while the old snapshot is retained after restart(false)
    pub frozen: Option<Frozen>,
    /// the stream whose items the snapshot showed last (None = unknown / empty)
    pub snap_stream: Option<u32>,
    pub oracle_matcher: Matcher,
    pub problems: Vec<(String, String, String)>,
    /// a fill callback panicked on the current stream
    pub has_hole: bool,
    pub case_id: String,
    pub trail: Vec<String>,
    /// columns reparsed since the last tick (bit mask) and the number of ticks that followed edits of two or more columns
    pub edited_mask: u32,
    pub multi_edit_ticks: u64,
    pub order_checks: u64,
}

fn snap_pattern_string(snap: &Snapshot<Payload>, cols: usize) -> String {
    (0..cols)
        .map(|c| format!("{:?}", snap.pattern().column_pattern(c).atoms))
        .collect::<Vec<_>>()
        .join("|")
}

/// number of item ids one World can hand out (raised for the histories that need more)
pub static REG_CAP: std::sync::atomic::AtomicUsize = std::sync::atomic::AtomicUsize::new(1 << 16);

impl World {
    pub fn new(seed_id: String, rng: &mut Rng, threads: usize, cols: usize, notify: Option<Arc<dyn Fn() + Sync + Send>>) -> World {
        let reg = Registry::new(if cfg!(miri) { 1 << 9 } else { REG_CAP.load(Ordering::Relaxed) });
        let config = if rng.coin() { Config::DEFAULT } else { Config::DEFAULT.match_paths() };
        let notify_count = Arc::new(AtomicU64::new(0));
        let nc = notify_count.clone();
        let notify: Arc<dyn Fn() + Sync + Send> = notify.unwrap_or_else(|| {
            Arc::new(move || {
                nc.fetch_add(1, Ordering::SeqCst);
                record_event(EvKind::Notify);
            })
        });
        // threads == 0: let the library choose (its default pool size)
        let nucleo = Nucleo::new(config.clone(), notify, (threads > 0).then_some(threads), cols as u32);
        stream_handles_add(&reg, 0, 1); // the matcher itself reaches stream 0
        World {
            reg,
            nucleo: Some(nucleo),
            oracle_matcher: Matcher::new(config.clone()),
            config,
            threads,
            cols,
            cur: 0,
            handles: Vec::new(),
            texts: vec![String::new(); cols],
            modes: vec![(CaseMatching::Smart, Normalization::Smart); cols],
            next_id: Arc::new(std::sync::atomic::AtomicU32::new(0)),
            invoked: Arc::new(Mutex::new(HashMap::new())),
            completed: Arc::new(Mutex::new(HashMap::new())),
            notify_count,
            aux: Arc::new(Mutex::new(HashMap::new())),
            frozen: None,
            snap_stream: None,
            problems: Vec::new(),
            has_hole: false,
            case_id: seed_id,
            trail: Vec::new(),
            edited_mask: 0,
            multi_edit_ticks: 0,
            order_checks: 0,
        }
    }

    pub fn n(&mut self) -> &mut Nucleo<Payload> {
        self.nucleo.as_mut().unwrap()
    }

    pub fn problem(&mut self, prop: &str, kind: &str, msg: String) {
        if self.problems.iter().filter(|x| x.0 == prop).count() < 8 {
            self.problems.push((prop.to_owned(), kind.to_owned(), msg));
        }
    }

    pub fn note(&mut self, s: String) {
        if self.trail.len() < 400 {
            self.trail.push(s);
        }
    }

    // ---------------- injector handles (C20 model)

    pub fn new_injector(&mut self) -> usize {
        let inj = self.n().injector();
        stream_handles_add(&self.reg, self.cur, 1);
        let cur = self.cur;
        self.handles.push(Handle { stream: cur, inj });
        self.note(format!("injector() -> handle {}", self.handles.len() - 1));
        self.handles.len() - 1
    }

    pub fn clone_injector(&mut self, k: usize) {
        let stream = self.handles[k].stream;
        let inj = self.handles[k].inj.clone();
        stream_handles_add(&self.reg, stream, 1);
        self.handles.push(Handle { stream, inj });
        self.note(format!("clone handle {k}"));
    }

    /// `handles[dst].clone_from(&handles[src])`: by the contract of `Clone` the same as dropping `dst` and cloning `src`
    pub fn clone_from_injector(&mut self, dst: usize, src: usize) {
        assert!(dst != src);
        let (old, new) = (self.handles[dst].stream, self.handles[src].stream);
        stream_handles_add(&self.reg, old, -1);
        stream_handles_add(&self.reg, new, 1);
        if dst < src {
            let (a, b) = self.handles.split_at_mut(src);
            a[dst].inj.clone_from(&b[0].inj);
        } else {
            let (a, b) = self.handles.split_at_mut(dst);
            b[0].inj.clone_from(&a[src].inj);
        }
        self.handles[dst].stream = new;
        self.note(format!("handle {dst} (stream {old}) .clone_from(handle {src} (stream {new}))"));
    }

    pub fn clone_or_clone_from(&mut self, k: usize, rng: &mut Rng) {
        if self.handles.len() >= 2 && rng.chance(1, 3) {
            let dst = (k + 1 + rng.below(self.handles.len() - 1)) % self.handles.len();
            self.clone_from_injector(dst, k);
        } else {
            self.clone_injector(k);
        }
    }

    pub fn drop_injector(&mut self, k: usize) {
        let h = self.handles.swap_remove(k);
        // the counter is decremented before the real handle goes away: a payload drop that
        // still sees a positive counter is early
        stream_handles_add(&self.reg, h.stream, -1);
        drop(h);
        self.note(format!("drop handle {k}"));
    }

    pub fn check_active_injectors(&mut self, after: &str) {
        let expected = self.handles.iter().filter(|h| h.stream == self.cur).count();
        // read the helper count before and after: a helper may drop its clone concurrently
        let aux_before = self.aux.lock().unwrap().get(&self.cur).copied().unwrap_or(0).max(0) as usize;
        let got = self.n().active_injectors();
        let aux_after = self.aux.lock().unwrap().get(&self.cur).copied().unwrap_or(0).max(0) as usize;
        // helper counters are upper bounds of the clones that exist, so only an interval is known
        let lo = expected;
        let hi = expected + aux_before.max(aux_after);
        if got < lo || got > hi {
            self.problem(
                "C20",
                "active-injectors-wrong",
                format!("after `{after}`: active_injectors() = {got}, live handles of the current stream = {expected} (+{aux_before}..{aux_after} helper clones)"),
            );
        }
    }

    // ---------------- injection

    pub fn alloc_ids(&self, n: u32) -> u32 {
        self.next_id.fetch_add(n, Ordering::Relaxed)
    }

    pub fn push_via(&mut self, k: usize, n: usize, extend: bool) {
        let first = self.alloc_ids(n as u32);
        let stream = self.handles[k].stream;
        inject(&self.handles[k].inj, &self.reg, stream, first, n, extend, &self.invoked, &self.completed);
        self.note(format!("{} {n} items (ids {first}..) via handle {k} (stream {stream})", if extend { "extend" } else { "push" }));
    }

    // ---------------- pattern edits

    /// one `extend` whose iterator reports `reported` elements and yields `real` (< reported): the rest of the reservation
    /// stays unpublished for good. Only used on streams that are never ticked (the matcher would wait for them forever).
    pub fn push_lying(&mut self, k: usize, real: usize, reported: usize) {
        struct Liar<I> {
            inner: I,
            reported: usize,
        }
        impl<I: Iterator> Iterator for Liar<I> {
            type Item = I::Item;
            fn next(&mut self) -> Option<I::Item> {
                self.inner.next()
            }
        }
        impl<I: Iterator> ExactSizeIterator for Liar<I> {
            fn len(&self) -> usize {
                self.reported
            }
        }
        let stream = self.handles[k].stream;
        let first = self.alloc_ids(real as u32);
        *self.invoked.lock().unwrap().entry(stream).or_insert(0) += reported as u32;
        let items: Vec<Payload> = (first..first + real as u32).map(|i| Payload::new(i, stream, &self.reg)).collect();
        self.handles[k].inj.extend(Liar { inner: items.into_iter(), reported }, |p, cols| fill_cols(p.id, cols));
        *self.completed.lock().unwrap().entry(stream).or_insert(0) += real as u32;
        self.note(format!("extend reporting {reported} elements, yielding {real} (ids {first}..) via handle {k} (stream {stream})"));
    }

    /// a push whose fill callback panics (the panic is caught by the caller): the index stays reserved, nothing is ever
    /// published there, the item is destroyed by the unwinding
    pub fn push_with_panicking_fill(&mut self, k: usize, extend_at: Option<usize>) {
        let stream = self.handles[k].stream;
        let n = extend_at.map_or(1, |at| at + 1 + 2) as u32;
        let first = self.alloc_ids(n);
        *self.invoked.lock().unwrap().entry(stream).or_insert(0) += n;
        for i in first..first + n {
            self.reg.exempt[i as usize].store(true, Ordering::Relaxed);
        }
        let inj = &self.handles[k].inj;
        let reg = &self.reg;
        let r = std::panic::catch_unwind(std::panic::AssertUnwindSafe(|| match extend_at {
            None => {
                inj.push(Payload::new(first, stream, reg), |_, _| panic!("fill callback panics on purpose"));
            }
            Some(at) => {
                let items: Vec<Payload> = (first..first + n).map(|i| Payload::new(i, stream, reg)).collect();
                inj.extend(items.into_iter(), |p, cols| {
                    if p.id == first + at as u32 {
                        panic!("fill callback panics on purpose");
                    }
                    fill_cols(p.id, cols)
                });
            }
        }));
        let published = extend_at.unwrap_or(0) as u32;
        *self.completed.lock().unwrap().entry(stream).or_insert(0) += published;
        if stream == self.cur {
            self.has_hole = true;
        }
        self.note(format!("push/extend of {n} items (ids {first}..) whose fill callback panics at position {published}: caught={}", r.is_err()));
    }

    pub fn edit(&mut self, col: usize, new_text: &str) {
        let (case, norm) = self.modes[col];
        self.edit_with(col, new_text, case, norm)
    }

    /// reparse with explicit case matching / normalization settings (a "match case" toggle of a user interface); the
    /// append flag follows the documented rule: set exactly when the previous text is a prefix of the new text
    pub fn edit_with(&mut self, col: usize, new_text: &str, case: CaseMatching, norm: Normalization) {
        let append = new_text.starts_with(self.texts[col].as_str());
        self.texts[col] = new_text.to_owned();
        let changed = self.modes[col] != (case, norm);
        self.modes[col] = (case, norm);
        self.n().pattern.reparse(col, new_text, case, norm, append);
        self.edited_mask |= 1 << col;
        if changed {
            self.note(format!("reparse col {col} {new_text:?} append={append} settings now {case:?}/{norm:?}"));
        } else {
            self.note(format!("reparse col {col} {new_text:?} append={append}"));
        }
    }

    // ---------------- restart

    /// `Nucleo::update_config` with the configuration the matcher already has: nothing observable may change
    /// (a different configuration is outside C06/C07; the call itself is ordinary API use from the ticking thread)
    pub fn update_config_same(&mut self) {
        let c = self.config.clone();
        self.n().update_config(c);
        self.note("update_config(unchanged configuration)".into());
    }

    /// true once every background run spawned so far has ended, decided without relying on the run passing its last
    /// yield point: every spawned run has entered `Worker::run` (entry point hits) and the worker lock could be taken
    /// afterwards (`update_config` with the unchanged configuration blocks until the run holding it is over)
    pub fn runs_finished_barrier(&mut self, ms: u64) -> bool {
        let deadline = Instant::now() + Duration::from_millis(ms);
        while hits(Point::RunEntry) < hits(Point::TickBeforeSpawn) {
            if Instant::now() >= deadline {
                return false;
            }
            std::thread::sleep(Duration::from_micros(100));
        }
        self.update_config_same();
        true
    }

    pub fn restart(&mut self, clear: bool) {
        // remember what the snapshot looks like: with clear=false it must stay exactly like this
        let snap = self.nucleo.as_ref().unwrap().snapshot();
        let frozen = Frozen {
            matches: snap.matches().iter().map(|m| (m.score, m.idx)).collect(),
            item_count: snap.item_count(),
            pattern: snap_pattern_string(snap, self.cols),
            stream: self.snap_stream,
            ids: snap.matches().iter().take(300).filter_map(|m| snap.get_item(m.idx).map(|it| it.data.id)).collect(),
        };
        let old = self.cur;
        // from now on the matcher may let go of the old stream at any time - possibly inside
        // `restart` itself if it holds the last reference - (when exactly is internal); only
        // injectors keep it reachable as far as the early-drop rule is concerned
        stream_handles_add(&self.reg, old, -1);
        self.n().restart(clear);
        self.has_hole = false;
        self.cur += 1;
        stream_handles_add(&self.reg, self.cur, 1);
        self.note(format!("restart({clear}) stream {old} -> {}", self.cur));
        let snap = self.nucleo.as_ref().unwrap().snapshot();
        if clear {
            if snap.matched_item_count() != 0 || snap.item_count() != 0 {
                let msg = format!(
                    "restart(true): snapshot not empty immediately ({} matches, item_count {})",
                    snap.matched_item_count(),
                    snap.item_count()
                );
                self.problem("C12", "snapshot-not-cleared", msg);
            }
            self.frozen = None;
            self.snap_stream = None;
            // the snapshot no longer reaches the old stream; whether the matcher still does is
            // internal (it lets go at the next tick), so the old stream counter is released at the tick
        } else {
            // the snapshot has to stay exactly as it was - immediately, not only at the next tick -
            // and every item it refers to must stay readable
            let now: Vec<(u32, u32)> = snap.matches().iter().map(|m| (m.score, m.idx)).collect();
            let pat = snap_pattern_string(snap, self.cols);
            let mut problem = None;
            if now != frozen.matches || snap.item_count() != frozen.item_count || pat != frozen.pattern {
                problem = Some(format!(
                    "restart(false) changed the snapshot immediately: matches {} -> {}, item_count {} -> {}, pattern changed: {}",
                    frozen.matches.len(),
                    now.len(),
                    frozen.item_count,
                    snap.item_count(),
                    pat != frozen.pattern
                ));
            } else {
                for &(_, idx) in now.iter().take(300) {
                    match snap.get_item(idx) {
                        None => {
                            problem = Some(format!("restart(false): matched item {idx} of the retained snapshot is no longer readable"));
                            break;
                        }
                        Some(it) => {
                            if let Err(e) = verify_payload(&it, self.cols) {
                                problem = Some(format!("restart(false): retained item {idx}: {e}"));
                                break;
                            } else if Some(it.data.stream) != frozen.stream && frozen.stream.is_some() {
                                problem = Some(format!("restart(false): retained item {idx} now belongs to stream {}", it.data.stream));
                                break;
                            }
                        }
                    }
                }
                // items counted by the retained snapshot stay readable as well
                // (the counted items can sit at any index of the old stream: unpublished entries of parked writers lie in
                // between, so all indices that were ever handed out are looked at)
                let handed_out = frozen.stream.and_then(|st| self.invoked.lock().unwrap().get(&st).copied());
                if let (true, Some(handed_out)) = (problem.is_none() && frozen.item_count > 0, handed_out) {
                    if handed_out <= 20_000 {
                        let readable = (0..handed_out).filter(|&i| snap.get_item(i).is_some()).count() as u32;
                        if readable < frozen.item_count {
                            problem = Some(format!(
                                "restart(false): the retained snapshot counts {} items but only {readable} of the {handed_out} indices of its stream are readable",
                                frozen.item_count
                            ));
                        }
                    }
                }
            }
            if let Some(p) = problem {
                self.problem("C12", "retained-snapshot-changed", p);
            }
            self.frozen = Some(frozen);
        }
    }

    // ---------------- tick with all checks

    pub fn tick(&mut self, timeout: u64) -> Status {
        let before = {
            let snap = self.nucleo.as_ref().unwrap().snapshot();
            Frozen {
                matches: snap.matches().iter().map(|m| (m.score, m.idx)).collect(),
                item_count: snap.item_count(),
                pattern: snap_pattern_string(snap, self.cols),
                stream: self.snap_stream,
                ids: Vec::new(),
            }
        };
        let completed_before = self.completed.lock().unwrap().get(&self.cur).copied().unwrap_or(0);
        if self.edited_mask.count_ones() >= 2 {
            self.multi_edit_ticks += 1;
        }
        self.edited_mask = 0;
        record_event(EvKind::TickBegin);
        let st = self.n().tick(timeout);
        record_event(EvKind::TickEnd { changed: st.changed, running: st.running });
        self.note(format!("tick({timeout}) -> changed={} running={}", st.changed, st.running));
        // after a tick the matcher works on the current stream only: older streams are
        // reachable through injectors (and the retained snapshot) only
        self.check_after_tick(&before, completed_before, st);
        st
    }

    fn check_after_tick(&mut self, before: &Frozen, completed_before: u32, st: Status) {
        let cols = self.cols;
        let cur = self.cur;
        let nucleo = self.nucleo.as_ref().unwrap();
        let snap = nucleo.snapshot();
        let matches: Vec<(u32, u32)> = snap.matches().iter().map(|m| (m.score, m.idx)).collect();
        let item_count = snap.item_count();
        let pat = snap_pattern_string(snap, cols);
        let mut problems: Vec<(String, String, String)> = Vec::new();
        let mut order_checks = 0u64;
        // (capped per property: problems of one property must not crowd out those of another)
        let mut p = |prop: &str, kind: &str, msg: String| {
            if problems.iter().filter(|x| x.0 == prop).count() < 4 {
                problems.push((prop.to_owned(), kind.to_owned(), msg))
            }
        };
        // ---- C19
        if !st.changed && (matches != before.matches || item_count != before.item_count || pat != before.pattern) {
            p(
                "C19",
                "changed-false-but-snapshot-differs",
                format!(
                    "matches {} -> {}, item_count {} -> {}, pattern changed: {}",
                    before.matches.len(),
                    matches.len(),
                    before.item_count,
                    item_count,
                    pat != before.pattern
                ),
            );
        }
        // ---- C06: every match refers to a published, completely written item
        let mut seen = HashSet::new();
        let mut streams: HashSet<u32> = HashSet::new();
        let mut readable = true;
        let mut lens: Vec<u32> = Vec::with_capacity(matches.len());
        for (k, &(score, idx)) in matches.iter().enumerate() {
            if !seen.insert(idx) {
                p("C06", "item-appears-twice", format!("index {idx} twice in matches"));
            }
            let Some(item) = snap.get_item(idx) else {
                p("C06", "match-refers-to-unpublished-item", format!("match #{k} index {idx} is not published in the snapshot's stream"));
                readable = false;
                lens.push(0);
                continue;
            };
            match verify_payload(&item, cols) {
                Ok((_id, stream)) => {
                    streams.insert(stream);
                }
                Err(e) => {
                    p("C06", "match-refers-to-incomplete-item", format!("index {idx}: {e}"));
                    readable = false;
                }
            }
            let expect = snap.pattern().score(item.matcher_columns, &mut self.oracle_matcher);
            if expect != Some(score) {
                p(
                    "C06",
                    "score-is-not-the-pattern-score",
                    format!("index {idx} ({:?}): score {score}, snapshot pattern scores {expect:?}", item_text(item.data.id, 0)),
                );
            }
            lens.push(item.matcher_columns.iter().map(|c| c.len() as u32).sum());
        }
        if readable {
            // the unchecked accessors agree
            for (k, &(_, idx)) in matches.iter().enumerate().take(64) {
                match snap.get_matched_item(k as u32) {
                    Some(it) => {
                        if snap.get_item(idx).map(|x| x.data.id) != Some(it.data.id) {
                            p("C06", "get-matched-item-disagrees", format!("match #{k}"));
                        }
                    }
                    None => p("C06", "get-matched-item-disagrees", format!("get_matched_item({k}) is None although there are {} matches", matches.len())),
                }
                // safety: the index comes from the matches of this snapshot (the documented precondition)
                let it = unsafe { snap.get_item_unchecked(idx) };
                if verify_payload(&it, cols).ok().map(|x| x.0) != snap.get_item(idx).map(|x| x.data.id) {
                    p("C06", "get-item-unchecked-disagrees", format!("match #{k} index {idx}"));
                }
            }
            let n = matches.len().min(200) as u32;
            if snap.matched_items(0..n).count() != n as usize {
                p("C06", "matched-items-range", "wrong number of items".into());
            }
            // every form of range bound, forwards and backwards
            if snap.matched_item_count() as usize != matches.len() {
                p("C06", "matched-item-count", format!("{} vs {} matches", snap.matched_item_count(), matches.len()));
            }
            if snap.get_matched_item(matches.len() as u32).is_some() {
                p("C06", "get-matched-item-beyond-end", "returned an item for n == matched_item_count".into());
            }
            if matches.len() >= 3 {
                use std::ops::Bound;
                let len = matches.len() as u32;
                let (a, b) = (len / 3, (2 * len / 3).max(len / 3 + 1).min(len - 1));
                let ids = |lo: usize, hi: usize| -> Vec<u32> { matches[lo..hi].iter().filter_map(|m| snap.get_item(m.1).map(|x| x.data.id)).collect() };
                let got_all: Vec<u32> = snap.matched_items(..).map(|x| x.data.id).collect();
                let got_ab: Vec<u32> = snap.matched_items(a..b).map(|x| x.data.id).collect();
                let got_abi: Vec<u32> = snap.matched_items(a..=b).map(|x| x.data.id).collect();
                let got_exc: Vec<u32> = snap.matched_items((Bound::Excluded(a), Bound::Included(b))).map(|x| x.data.id).collect();
                let got_to: Vec<u32> = snap.matched_items(..=b).map(|x| x.data.id).collect();
                let mut got_rev: Vec<u32> = snap.matched_items(a..).rev().map(|x| x.data.id).collect();
                got_rev.reverse();
                let exact_len = snap.matched_items(a..b).len();
                if got_all != ids(0, len as usize)
                    || got_ab != ids(a as usize, b as usize)
                    || got_abi != ids(a as usize, b as usize + 1)
                    || got_exc != ids(a as usize + 1, b as usize + 1)
                    || got_to != ids(0, b as usize + 1)
                    || got_rev != ids(a as usize, len as usize)
                    || exact_len != (b - a) as usize
                {
                    p("C06", "matched-items-range", format!("range forms disagree with matches() for a={a} b={b} len={len}"));
                }
            }
        }
        // order
        let empty_pattern = snap.pattern().is_empty();
        if !empty_pattern && matches.len() > 1 {
            order_checks += 1;
        }
        for k in 1..matches.len() {
            let a = (std::cmp::Reverse(matches[k - 1].0), lens[k - 1], matches[k - 1].1);
            let b = (std::cmp::Reverse(matches[k].0), lens[k], matches[k].1);
            let ok = if empty_pattern { matches[k - 1].1 < matches[k].1 } else { a < b };
            if !ok && readable {
                p(
                    "C06",
                    "matches-out-of-order",
                    format!("neighbours #{} {:?} len {} and #{k} {:?} len {} (empty pattern: {empty_pattern})", k - 1, matches[k - 1], lens[k - 1], matches[k], lens[k]),
                );
                if !empty_pattern {
                    // the published list is the output of the parallel sort under the worker's comparison
                    p(
                        "C18",
                        "published-matches-not-sorted-by-the-workers-total-order",
                        format!("neighbours #{} {:?} len {} and #{k} {:?} len {}", k - 1, matches[k - 1], lens[k - 1], matches[k], lens[k]),
                    );
                }
                break;
            }
        }
        if streams.len() > 1 {
            p("C12", "snapshot-mixes-streams", format!("matched items of streams {streams:?} in one snapshot"));
        }
        // accounting against what is published now in the snapshot's item stream
        if readable && (item_count > 0 || !matches.is_empty()) {
            let max_invoked = self.invoked.lock().unwrap().values().copied().max().unwrap_or(0);
            let mut published_nonmatching = 0u32;
            let mut matching_set: HashSet<u32> = HashSet::new();
            let mut vec_streams: HashSet<u32> = HashSet::new();
            for idx in 0..max_invoked + 2 {
                if let Some(item) = snap.get_item(idx) {
                    vec_streams.insert(item.data.stream);
                    if snap.pattern().score(item.matcher_columns, &mut self.oracle_matcher).is_some() {
                        matching_set.insert(idx);
                    } else {
                        published_nonmatching += 1;
                    }
                }
            }
            if vec_streams.len() > 1 {
                p("C12", "snapshot-mixes-streams", format!("the snapshot's item stream holds payloads of streams {vec_streams:?}"));
            }
            let s = vec_streams.iter().next().copied();
            if streams.is_empty() {
                if let Some(s) = s {
                    streams.insert(s);
                }
            }
            let invoked = s.and_then(|s| self.invoked.lock().unwrap().get(&s).copied()).unwrap_or(max_invoked);
            for &(_, idx) in &matches {
                if !matching_set.contains(&idx) && snap.get_item(idx).is_some() {
                    p("C06", "non-matching-item-in-matches", format!("index {idx}"));
                    break;
                }
            }
            let m = matches.len() as u32;
            if m > item_count {
                p("C06", "more-matches-than-items", format!("{m} matches, item_count {item_count}"));
            }
            if item_count > invoked {
                p("C06", "item-count-above-injected", format!("item_count {item_count}, pushes invoked on stream {s:?}: {invoked}"));
            }
            if item_count.saturating_sub(m) > published_nonmatching {
                p(
                    "C06",
                    "processed-set-inconsistent",
                    format!(
                        "item_count {item_count} - matches {m} = {} processed non-matching items, but only {published_nonmatching} published items do not match (a matching item is missing from the matches)",
                        item_count - m
                    ),
                );
            }
        }
        let snap_stream = if streams.len() == 1 { streams.iter().next().copied() } else { None };
        // ---- C12: retained snapshot / new stream only
        if let Some(f) = &self.frozen {
            // "the snapshot is still the retained one": same summary AND (where it lists anything) items of the same stream - a run
            // over the new stream may produce the very same counts, indices and scores
            let same = matches == f.matches && item_count == f.item_count && pat == f.pattern && (matches.is_empty() || f.stream.is_none() || snap_stream == f.stream);
            if same {
                // C11: the retained snapshot is a handle that reaches its items: as long as it lists them they are alive
                if let Some(&id) = f.ids.iter().find(|&&id| self.reg.drops[id as usize].load(Ordering::Relaxed) > 0) {
                    p(
                        "C11",
                        "payload-dropped-while-reachable",
                        format!("item id {id} of the stream shown by the retained snapshot was destroyed while the snapshot still lists it ({} matches)", matches.len()),
                    );
                }
            }
            if !same {
                // the snapshot moved on: it must consist solely of items of the current stream
                if let Some(s) = snap_stream {
                    if s != cur {
                        p("C12", "old-stream-after-restart", format!("snapshot changed after restart(false) but shows stream {s}, current {cur}"));
                    }
                }
            }
        } else if let Some(s) = snap_stream {
            if s != cur {
                p("C12", "old-stream-after-restart", format!("snapshot shows stream {s}, current stream {cur}"));
            }
        }
        // ---- C19: running == false
        if !st.running {
            if item_count < completed_before {
                p(
                    "C19",
                    "not-running-but-items-unaccounted",
                    format!("item_count {item_count} < {completed_before} pushes of the current stream completed before the tick"),
                );
            }
            let cur_pat: String = (0..cols)
                .map(|c| format!("{:?}", nucleo.pattern.column_pattern(c).atoms))
                .collect::<Vec<_>>()
                .join("|");
            if pat != cur_pat {
                p("C19", "not-running-but-stale-pattern", format!("snapshot pattern {pat}, matcher pattern {cur_pat}"));
            }
            if let Some(s) = snap_stream {
                if s != cur {
                    p("C19", "not-running-but-old-stream", format!("snapshot stream {s}, current {cur}"));
                }
            }
        }
        let moved_on = self
            .frozen
            .as_ref()
            .map_or(false, |f| !(matches == f.matches && item_count == f.item_count && pat == f.pattern && (matches.is_empty() || f.stream.is_none() || snap_stream == f.stream)));
        if moved_on || !st.running {
            self.frozen = None;
        }
        if snap_stream.is_some() {
            self.snap_stream = snap_stream;
        } else if matches.is_empty() && item_count == 0 {
            self.snap_stream = None;
        }
        self.order_checks += order_checks;
        for (a, b, c) in problems {
            self.problem(&a, &b, c);
        }
    }

    /// the from-scratch result for the current stream and pattern
    pub fn expected_quiescent(&mut self) -> (u32, Vec<(u32, u32)>) {
        let nucleo = self.nucleo.as_ref().unwrap();
        let snap = nucleo.snapshot();
        let n = self.invoked.lock().unwrap().get(&self.cur).copied().unwrap_or(0);
        let mut fresh = Matcher::new(self.config.clone());
        let mut out: Vec<(u32, u32, u32)> = Vec::new();
        let mut present = 0;
        for idx in 0..n {
            let Some(item) = snap.get_item(idx) else { continue };
            if item.data.stream != self.cur {
                continue;
            }
            present += 1;
            if let Some(score) = nucleo.pattern.score(item.matcher_columns, &mut fresh) {
                let len: u32 = item.matcher_columns.iter().map(|c| c.len() as u32).sum();
                out.push((score, len, idx));
            }
        }
        if nucleo.pattern.is_empty() {
            out.sort_by_key(|x| x.2);
        } else {
            out.sort_by_key(|x| (std::cmp::Reverse(x.0), x.1, x.2));
        }
        (present, out.into_iter().map(|x| (x.0, x.2)).collect())
    }

    /// drives the matcher to quiescence (bounded) and compares with the from-scratch result
    pub fn check_quiescent(&mut self, rep: &mut Report) -> bool {
        let mut quiet = false;
        if self.has_hole {
            // an index whose fill callback panicked stays reserved and unpublished for good: the matcher keeps reporting
            // `running` (that is how it treats any unpublished index), so there is no quiescent state to compare; the
            // snapshot checks of every tick still apply
            for _ in 0..4 {
                self.tick(30);
            }
            rep.count("c06.histories-with-a-permanently-unpublished-index");
            return false;
        }
        for _ in 0..200 {
            let st = self.tick(50);
            if !st.running {
                quiet = true;
                break;
            }
        }
        if !quiet {
            rep.count("c07.never-quiescent");
            return false;
        }
        rep.count("c07.quiescent-states-compared");
        if self.cols >= 2 {
            rep.count("c15.multi-column-quiescent-states-compared");
        }
        rep.add("c15.ticks-after-edits-of-2+-columns", std::mem::take(&mut self.multi_edit_ticks));
        rep.add("c18.published-match-lists-checked-for-order", std::mem::take(&mut self.order_checks));
        let (present, expected) = self.expected_quiescent();
        let snap = self.nucleo.as_ref().unwrap().snapshot();
        let got: Vec<(u32, u32)> = snap.matches().iter().map(|m| (m.score, m.idx)).collect();
        let item_count = snap.item_count();
        let injected = self.invoked.lock().unwrap().get(&self.cur).copied().unwrap_or(0);
        if present == injected && item_count != injected {
            let msg = format!("quiescent item_count {item_count}, items injected into the current stream {injected}");
            self.problem("C07", "item-count-differs-from-scratch", msg);
        }
        if got != expected {
            let missing: Vec<u32> = expected.iter().map(|x| x.1).filter(|i| !got.iter().any(|g| g.1 == *i)).take(5).collect();
            let extra: Vec<u32> = got.iter().map(|x| x.1).filter(|i| !expected.iter().any(|g| g.1 == *i)).take(5).collect();
            let first = got.iter().zip(&expected).position(|(a, b)| a != b);
            let texts = self.texts.clone();
            let msg = format!(
                "pattern {texts:?}: snapshot has {} matches, from scratch {}; missing indices {missing:?}, extra {extra:?}, first difference at {first:?}",
                got.len(),
                expected.len()
            );
            let kind = if !missing.is_empty() {
                "matches-missing-at-quiescence"
            } else if !extra.is_empty() {
                "extra-matches-at-quiescence"
            } else {
                "order-or-score-differs-at-quiescence"
            };
            if self.cols >= 2 {
                self.problem("C15", "multi-column-snapshot-differs-from-the-conjunction", msg.clone());
            }
            self.problem("C07", kind, msg);
        }
        true
    }

    /// shuts the world down; returns false if it had to be leaked
    /// the matcher goes away first, injector handles (of the current and of older streams) survive it, keep pushing and
    /// are dropped afterwards: items stay readable through the handles and are destroyed when the last handle goes
    pub fn shutdown_nucleo_first(&mut self, rng: &mut Rng) {
        release_all();
        let Some(mut n) = self.nucleo.take() else { return };
        for _ in 0..400 {
            if !n.tick(25).running {
                break;
            }
        }
        for s in 0..=self.cur {
            // matcher + snapshot let go; what remains are the injector handles
            let handles = self.handles.iter().filter(|h| h.stream == s).count() as i64;
            let aux = self.aux.lock().unwrap().get(&s).copied().unwrap_or(0).max(0);
            let cnt = stream_handles(&self.reg, s);
            if cnt > handles + aux {
                stream_handles_add(&self.reg, s, -(cnt - handles - aux));
            }
        }
        drop(n);
        self.note("matcher dropped while injector handles are alive".into());
        for k in 0..self.handles.len() {
            if rng.coin() {
                let n = rng.range(1, 20);
                self.push_via(k, n, rng.coin());
            }
            let h = &self.handles[k];
            let injected = h.inj.injected_items();
            let mut seen = 0;
            for i in 0..injected.min(3000) {
                if let Some(it) = h.inj.get(i) {
                    match verify_payload(&it, self.cols) {
                        Ok((_, stream)) if stream == h.stream => seen += 1,
                        Ok((id, stream)) => {
                            let msg = format!("handle of stream {} reads item id {id} of stream {stream} after the matcher was dropped", h.stream);
                            self.problems.push(("C11".into(), "item-of-another-stream".into(), msg));
                            break;
                        }
                        Err(e) => {
                            let msg = format!("index {i} read through an injector after the matcher was dropped: {e}");
                            self.problems.push(("C11".into(), "item-damaged-while-reachable".into(), msg));
                            break;
                        }
                    }
                }
            }
            let completed = self.completed.lock().unwrap().get(&self.handles[k].stream).copied().unwrap_or(0);
            if injected <= 3000 && seen < completed {
                let msg = format!("{completed} pushes completed on stream {} but only {seen} items are readable through its injector after the matcher was dropped", self.handles[k].stream);
                self.problems.push(("C11".into(), "item-lost-while-reachable".into(), msg));
            }
        }
        while !self.handles.is_empty() {
            let k = rng.below(self.handles.len());
            self.drop_injector(k);
        }
    }

    pub fn shutdown(&mut self) {
        release_all();
        while !self.handles.is_empty() {
            self.drop_injector(0);
        }
        if let Some(mut n) = self.nucleo.take() {
            // let the background worker go idle first: `Nucleo::drop` gives the pool one wall-clock
            // second to release the worker lock and panics otherwise, which an overloaded
            // machine could exceed while a freshly spawned run is still queued
            for _ in 0..400 {
                if !n.tick(25).running {
                    break;
                }
            }
            for s in 0..=self.cur {
                // matcher + snapshot let go of everything
                let cnt = stream_handles(&self.reg, s);
                if cnt > 0 {
                    stream_handles_add(&self.reg, s, -cnt);
                }
            }
            drop(n);
        }
    }
}

#[allow(clippy::too_many_arguments)]
pub fn inject(
    inj: &Injector<Payload>,
    reg: &Arc<Registry>,
    stream: u32,
    first: u32,
    n: usize,
    extend: bool,
    invoked: &Mutex<HashMap<u32, u32>>,
    completed: &Mutex<HashMap<u32, u32>>,
) {
    *invoked.lock().unwrap().entry(stream).or_insert(0) += n as u32;
    if extend {
        let items: Vec<Payload> = (0..n as u32).map(|k| Payload::new(first + k, stream, reg)).collect();
        inj.extend(items.into_iter(), |p, cols| fill_cols(p.id, cols));
    } else {
        for k in 0..n as u32 {
            inj.push(Payload::new(first + k, stream, reg), |p, cols| fill_cols(p.id, cols));
        }
    }
    *completed.lock().unwrap().entry(stream).or_insert(0) += n as u32;
}

/// a writer that is parked inside its fill callback (index reserved, item not published)
pub struct HeldWriter {
    gate: Arc<(Mutex<bool>, Condvar)>,
    thread: Option<std::thread::JoinHandle<()>>,
    pub in_flight: Arc<AtomicBool>,
    /// set once the push has returned on the writer's thread
    pub published: Arc<AtomicBool>,
}

impl HeldWriter {
    pub fn start(w: &mut World, k: usize) -> HeldWriter {
        Self::start_batch(w, k, 1, 0)
    }

    /// a batch of `n` items (one `extend`, all indices reserved at once) whose writer is parked inside the fill callback
    /// of its `block_at`-th item: the items before it are published, that one and all later ones are not
    pub fn start_batch(w: &mut World, k: usize, n: u32, block_at: u32) -> HeldWriter {
        let gate = Arc::new((Mutex::new(false), Condvar::new()));
        let in_flight = Arc::new(AtomicBool::new(false));
        let stream = w.handles[k].stream;
        *w.aux.lock().unwrap().entry(stream).or_insert(0) += 1;
        let aux = w.aux.clone();
        let inj = w.handles[k].inj.clone();
        stream_handles_add(&w.reg, stream, 1);
        let reg = w.reg.clone();
        let n = n.max(1);
        let block_at = block_at.min(n - 1);
        let id = w.alloc_ids(n);
        let (g2, f2) = (gate.clone(), in_flight.clone());
        let published = Arc::new(AtomicBool::new(false));
        let pub2 = published.clone();
        let (invoked, completed) = (w.invoked.clone(), w.completed.clone());
        *invoked.lock().unwrap().entry(stream).or_insert(0) += n;
        let thread = std::thread::spawn(move || {
            let park = |p: &Payload, cols: &mut [Utf32String]| {
                if p.id == id + block_at {
                    f2.store(true, Ordering::SeqCst);
                    let (m, cv) = &*g2;
                    let mut open = m.lock().unwrap();
                    let deadline = Instant::now() + Duration::from_secs(20);
                    while !*open && Instant::now() < deadline {
                        let (g, _) = cv.wait_timeout(open, Duration::from_millis(100)).unwrap();
                        open = g;
                    }
                }
                fill_cols(p.id, cols);
            };
            if n == 1 {
                inj.push(Payload::new(id, stream, &reg), |p, cols| park(p, cols));
            } else {
                let items: Vec<Payload> = (id..id + n).map(|i| Payload::new(i, stream, &reg)).collect();
                inj.extend(items.into_iter(), |p, cols| park(p, cols));
            }
            *completed.lock().unwrap().entry(stream).or_insert(0) += n;
            pub2.store(true, Ordering::SeqCst);
            stream_handles_add(&reg, stream, -1);
            drop(inj);
            *aux.lock().unwrap().entry(stream).or_insert(0) -= 1;
        });
        // wait until it is actually in flight
        let deadline = Instant::now() + Duration::from_secs(5);
        while !in_flight.load(Ordering::SeqCst) && Instant::now() < deadline {
            std::thread::sleep(Duration::from_micros(100));
        }
        if n == 1 {
            w.note(format!("hold writer (id {id}) in flight via handle {k}"));
        } else {
            w.note(format!("hold a batch of {n} (ids {id}..) parked at its item {block_at} via handle {k}"));
        }
        HeldWriter {
            gate,
            thread: Some(thread),
            in_flight,
            published,
        }
    }

    /// arms the trigger: the `nth` read of the item vector (lookup or snapshot iteration step) that any thread performs
    /// while the background run is between the points `from` and `to` publishes this writer's item, and that read only
    /// goes on once the item is published
    pub fn publish_at_nth_read(&self, from: Point, to: Point, nth: u64) {
        *TRIGGER.lock().unwrap() = Some(Trigger {
            from,
            to,
            in_phase: false,
            nth,
            seen: 0,
            fired: false,
            gate: self.gate.clone(),
            published: self.published.clone(),
        });
        TRIGGER_ARMED.store(true, Ordering::SeqCst);
    }

    pub fn release(&mut self) {
        {
            let (m, cv) = &*self.gate;
            *m.lock().unwrap() = true;
            cv.notify_all();
        }
        if let Some(t) = self.thread.take() {
            let _ = t.join();
        }
    }
}

impl Drop for HeldWriter {
    fn drop(&mut self) {
        self.release()
    }
}

// ---------------------------------------------------------------------------------- random driver

pub struct Opts {
    pub seed: u64,
    pub shard: u64,
    pub cases: u64,
    pub time_limit: f64,
    pub replay: Option<u64>,
    pub small: bool,
    pub delays: bool,
}

const PATTERN_SCRIPTS: &[&str] = &[
    "foo$a", "a\\ b", "foo", "ba r", "!foo", "^fo", "foo$", "a\\b", "f\u{f3}o", "Foo", "'ab", "a b", "fo o$", "\\$", "foo\\$a", "b !a", "a\\", "$", "ab$ x",
    "o", "^foo$", "x", "foo$ab", "\u{c9}", "\u{c9}a", "f\u{d3}o", "\u{c9} b",
];

fn flush(w: &mut World, rep: &mut Report, props: &[&str], extra: &J) {
    let problems = std::mem::take(&mut w.problems);
    for (prop, kind, msg) in problems {
        if !props.contains(&prop.as_str()) {
            rep.count(&format!("other-property-problem.{prop}"));
            continue;
        }
        let trail: Vec<J> = w.trail.iter().rev().take(60).rev().map(|s| J::Str(s.clone())).collect();
        rep.violation(
            &prop,
            &kind,
            format!("threads={}", if w.threads == 1 { "1" } else { "n" }),
            jobj! {"problem" => msg, "case_id" => w.case_id.clone(), "threads" => w.threads, "columns" => w.cols, "history_tail" => J::Arr(trail), "scenario" => extra.clone()},
        );
    }
}

/// random histories against a real Nucleo; `props` selects which properties' problems are reported
pub fn run_random(opts: &Opts, rep: &mut Report, props: &[&str]) {
    set_hook(Some(worker_hook));
    set_delays(opts.delays);
    let range: Box<dyn Iterator<Item = u64>> = match opts.replay {
        Some(i) => Box::new(i..i + 1),
        None => Box::new(0..opts.cases),
    };
    for idx in range {
        if rep.elapsed() > opts.time_limit {
            rep.note(format!("time limit reached after {idx} histories"));
            break;
        }
        let mut rng = Rng::new(mix(&[opts.seed, opts.shard, idx, 6]));
        reset_ctl(false);
        // occasionally more worker threads than hardware threads
        let hw = std::thread::available_parallelism().map_or(4, |n| n.get());
        let threads = if opts.small {
            rng.range(1, 2)
        } else if rng.chance(1, 10) {
            hw + rng.range(1, 9)
        } else if rng.chance(1, 40) {
            rep.count("histories-with-more-than-64-pool-threads");
            65 + rng.below(70)
        } else if rng.chance(1, 14) {
            0 // None: the library's default number of threads
        } else {
            *rng.pick(&[1usize, 2, 3, 4, 8, 16])
        };
        let cols = *rng.pick(&[1usize, 1, 2, 2, 3, 3, 4, 5]);
        let mut w = World::new(format!("{}:{}:{}", opts.seed, opts.shard, idx), &mut rng, threads, cols, None);
        let nsteps = if opts.small { rng.range(4, 10) } else { rng.range(5, 60) };
        let mut held: Vec<HeldWriter> = Vec::new();
        let mut bursts: Vec<std::thread::JoinHandle<()>> = Vec::new();
        let script = *rng.pick(PATTERN_SCRIPTS);
        let script_chars: Vec<char> = script.chars().collect();
        let mut typed = 0usize;
        let big = !opts.small && rng.chance(1, 6);
        // one history in six contains fill callbacks that panic
        let mut panics_left = if rng.chance(1, 6) { rng.range(1, 2) } else { 0 };
        w.new_injector();
        w.check_active_injectors("injector");
        let mut hsh = Hasher64::new();
        for step in 0..nsteps {
            let op = rng.below(100);
            hsh.add(op as u64);
            let label: String;
            match op {
                0..=17 if !w.handles.is_empty() => {
                    let k = rng.below(w.handles.len());
                    let n = if big { rng.range(1, 700) } else { rng.range(1, 40) };
                    let ext = rng.coin();
                    w.push_via(k, n, ext);
                    label = "push".into();
                }
                18..=23 if !w.handles.is_empty() && !opts.small => {
                    // background burst from another thread
                    let k = rng.below(w.handles.len());
                    let n = if big { rng.range(100, 3000) } else { rng.range(10, 300) };
                    let first = w.alloc_ids(n as u32);
                    let stream = w.handles[k].stream;
                    *w.aux.lock().unwrap().entry(stream).or_insert(0) += 1;
                    let aux = w.aux.clone();
                    let inj = w.handles[k].inj.clone();
                    stream_handles_add(&w.reg, stream, 1);
                    let (reg, invoked, completed) = (w.reg.clone(), w.invoked.clone(), w.completed.clone());
                    let ext = rng.coin();
                    bursts.push(std::thread::spawn(move || {
                        let chunk = 37;
                        let mut done = 0;
                        while done < n {
                            let c = chunk.min(n - done);
                            inject(&inj, &reg, stream, first + done as u32, c, ext, &invoked, &completed);
                            done += c;
                        }
                        stream_handles_add(&reg, stream, -1);
                        drop(inj);
                        *aux.lock().unwrap().entry(stream).or_insert(0) -= 1;
                    }));
                    w.note(format!("burst of {n} items via handle {k}"));
                    label = "burst".into();
                }
                24..=31 if !w.handles.is_empty() && held.len() < 4 => {
                    let k = rng.below(w.handles.len());
                    let hw = if rng.chance(1, 3) {
                        let n = *rng.pick(&[2u32, 5, 33, 40, 70, 130]);
                        let at = if rng.coin() { 0 } else { rng.below(n as usize) as u32 };
                        rep.count("held-batches-started");
                        HeldWriter::start_batch(&mut w, k, n, at)
                    } else {
                        HeldWriter::start(&mut w, k)
                    };
                    held.push(hw);
                    rep.count("held-writers-started");
                    label = "hold".into();
                }
                32..=37 if !held.is_empty() => {
                    let k = rng.below(held.len());
                    let mut hw = held.swap_remove(k);
                    hw.release();
                    w.note("release held writer".into());
                    label = "release".into();
                }
                38..=56 => {
                    // pattern edit
                    let col = rng.below(cols);
                    let new_text: String = match rng.below(10) {
                        0..=5 => {
                            // type the next character of the script (truthful append)
                            typed = (typed + 1).min(script_chars.len());
                            script_chars[..typed].iter().collect()
                        }
                        6 => {
                            typed = typed.saturating_sub(1);
                            script_chars[..typed].iter().collect()
                        }
                        7 => {
                            typed = 0;
                            String::new()
                        }
                        8 => {
                            let s = *rng.pick(PATTERN_SCRIPTS);
                            typed = 0;
                            s.to_owned()
                        }
                        _ => {
                            let mut t = w.texts[col].clone();
                            t.push(*rng.pick(&['a', 'o', ' ', '$', '\\', 'b', '!']));
                            t
                        }
                    };
                    if rng.chance(1, 6) {
                        // the user toggles "match case" / "ignore accents" (often with the text unchanged)
                        let case = *rng.pick(&[CaseMatching::Smart, CaseMatching::Ignore, CaseMatching::Respect]);
                        let norm = *rng.pick(&[Normalization::Smart, Normalization::Never]);
                        let text = if rng.coin() { w.texts[col].clone() } else { new_text };
                        w.edit_with(col, &text, case, norm);
                        rep.count("edits-with-changed-settings");
                    } else {
                        w.edit(col, &new_text);
                    }
                    label = "edit".into();
                }
                57 if !w.handles.is_empty() && panics_left > 0 => {
                    panics_left -= 1;
                    let k = rng.below(w.handles.len());
                    let at = if rng.coin() { None } else { Some(rng.below(3)) };
                    w.push_with_panicking_fill(k, at);
                    rep.count("pushes-whose-fill-callback-panicked");
                    label = "panicking-fill".into();
                }
                58..=60 => {
                    // configuration "changed" to the same value, usually right after a tick that left a run behind
                    if rng.chance(3, 4) {
                        let st = w.tick(0);
                        rep.count("ticks");
                        rep.count(&format!("tick.changed={}.running={}", st.changed, st.running));
                        if st.running {
                            rep.count("update-config-after-a-tick-that-left-a-run-behind");
                        }
                    }
                    w.update_config_same();
                    rep.count("update-config-calls");
                    label = "update_config".into();
                }
                61..=81 => {
                    let timeout = *rng.pick(&[0u64, 0, 1, 5, 10, 50, 50, u64::MAX, 1 << 40]);
                    let inflight = held.iter().filter(|h| h.in_flight.load(Ordering::SeqCst)).count();
                    let st = w.tick(timeout);
                    rep.count("ticks");
                    rep.count(&format!("tick.changed={}.running={}", st.changed, st.running));
                    if inflight >= 1 {
                        rep.count("snapshots-with-writer-in-flight");
                    }
                    if inflight >= 2 {
                        rep.count("snapshots-with-2+-writers-in-flight");
                    }
                    label = "tick".into();
                }
                82..=87 => {
                    let clear = rng.coin();
                    w.restart(clear);
                    rep.count(if clear { "restarts.clear" } else { "restarts.keep" });
                    label = "restart".into();
                }
                88..=92 => {
                    w.new_injector();
                    label = "injector".into();
                }
                93..=95 if !w.handles.is_empty() => {
                    let k = rng.below(w.handles.len());
                    w.clone_or_clone_from(k, &mut rng);
                    label = "clone".into();
                }
                96..=99 if w.handles.len() > 1 => {
                    let k = rng.below(w.handles.len());
                    w.drop_injector(k);
                    label = "drop".into();
                }
                _ => {
                    let st = w.tick(0);
                    rep.count("ticks");
                    rep.count(&format!("tick.changed={}.running={}", st.changed, st.running));
                    label = "tick".into();
                }
            }
            w.check_active_injectors(&label);
            rep.count("steps");
            let _ = step;
        }
        // quiesce: release writers, join bursts, tick until done
        for mut h in held.drain(..) {
            h.release();
        }
        for b in bursts.drain(..) {
            let _ = b.join();
        }
        if w.handles.iter().all(|h| h.stream != w.cur) {
            // make sure the final stream is not trivially empty in every history
            let k = w.new_injector();
            let n = rng.range(1, 30);
            w.push_via(k, n, rng.coin());
        }
        while !w.handles.is_empty() {
            w.drop_injector(0);
        }
        w.check_quiescent(rep);
        w.check_active_injectors("quiescent");
        rep.count("histories");
        rep.count(&format!("threads.{}", if threads > hw { "above-hardware".to_string() } else if threads == 0 { "library-default".to_string() } else { threads.to_string() }));
        hsh.add(threads as u64 * 131 + cols as u64);
        hsh.add(w.invoked.lock().unwrap().values().map(|v| *v as u64).sum::<u64>());
        rep.distinct(hsh.finish());
        let extra = jobj! {"driver" => "random", "pattern_script" => script, "steps" => nsteps};
        if rep.want_sample() && idx % 11 == 3 {
            rep.sample(jobj! {"threads" => threads, "columns" => cols, "steps" => nsteps, "pattern_script" => script,
                "history" => J::Arr(w.trail.iter().take(40).map(|s| J::Str(s.clone())).collect())});
        }
        flush(&mut w, rep, props, &extra);
        let timeouts = with_ctl(|c| std::mem::take(&mut c.pause_timeouts));
        rep.add("pause-timeouts", timeouts);
        if rng.chance(1, 4) {
            // handles outlive the matcher
            let k = w.new_injector();
            if rng.coin() {
                w.clone_or_clone_from(k, &mut rng);
            }
            let n = rng.range(1, 30);
            w.push_via(k, n, rng.coin());
            w.shutdown_nucleo_first(&mut rng);
            rep.count("c11.histories-where-injectors-outlive-the-matcher");
            flush(&mut w, rep, props, &extra);
        } else {
            w.shutdown();
        }
        check_drops(&w, rep, props, &extra);
    }
    set_delays(false);
    set_hook(None);
}

/// C11 at Nucleo level: after every handle is gone each payload was dropped exactly once
pub fn check_drops(w: &World, rep: &mut Report, props: &[&str], extra: &J) {
    let n = w.next_id.load(Ordering::Relaxed);
    // the pool thread that ran the last background run drops its reference to the worker (and
    // with it the item stream) asynchronously: give the counts a moment to settle. A real leak
    // never settles, so this grace period cannot hide one.
    let deadline = Instant::now() + Duration::from_millis(10_000);
    loop {
        let settled = (0..n as usize).all(|i| w.reg.created[i].load(Ordering::Relaxed) == w.reg.drops[i].load(Ordering::Relaxed) || w.reg.leak_ok[i].load(Ordering::Relaxed));
        if settled || Instant::now() > deadline {
            break;
        }
        std::thread::sleep(Duration::from_micros(500));
    }
    let mut created = 0u64;
    let mut first_bad: Option<String> = None;
    let mut bad: Vec<usize> = Vec::new();
    for i in 0..n as usize {
        let c = w.reg.created[i].load(Ordering::Relaxed);
        let d = w.reg.drops[i].load(Ordering::Relaxed);
        created += c as u64;
        if c != d && !(d < c && w.reg.leak_ok[i].load(Ordering::Relaxed)) {
            if first_bad.is_none() {
                first_bad = Some(format!("id {i}: created {c}, dropped {d}"));
            }
            bad.push(i);
        }
    }
    if let Some(f) = first_bad.as_mut() {
        f.push_str(&format!("; {} payloads with a wrong drop count, first ids {:?}", bad.len(), &bad[..bad.len().min(12)]));
    }
    rep.add("c11.payloads-created", created);
    stream_handles_clear(&w.reg);
    if !props.contains(&"C11") {
        return;
    }
    let sig = format!("nucleo threads={}", if w.threads == 1 { "1" } else { "n" });
    let detail = |msg: String| {
        jobj! {"problem" => msg, "case_id" => w.case_id.clone(), "threads" => w.threads, "scenario" => extra.clone(),
               "history_tail" => J::Arr(w.trail.iter().rev().take(60).rev().map(|s| J::Str(s.clone())).collect())}
    };
    if let Some(b) = first_bad {
        rep.violation("C11", "payload-drop-count-wrong", sig.clone(), detail(b));
    }
    if w.reg.early_drops.load(Ordering::Relaxed) > 0 {
        rep.violation(
            "C11",
            "payload-dropped-while-reachable",
            sig.clone(),
            detail(format!("{} payloads dropped while a handle to their stream was alive", w.reg.early_drops.load(Ordering::Relaxed))),
        );
    }
    if w.reg.bad_canary.load(Ordering::Relaxed) > 0 || w.reg.double_drop.load(Ordering::Relaxed) > 0 {
        rep.violation("C11", "double-drop-or-use-after-drop", sig, detail("canary invalid in Drop or dropped twice".into()));
    }
}
