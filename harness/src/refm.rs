//! Executable reference model of the matcher, written from the property texts
//! and DESIGN.md Appendix A (literal numbers, no constants imported from the crate).
use std::cell::RefCell;
use std::panic::{catch_unwind, AssertUnwindSafe};

use nucleo_matcher::{chars, Config, Matcher, Utf32Str};

#[derive(Clone, Copy, Debug, PartialEq, Eq, Hash, PartialOrd, Ord)]
pub enum Class {
    White,
    NonWord,
    Delim,
    Lower,
    Upper,
    Letter,
    Number,
}

#[derive(Clone, Copy, Debug, PartialEq, Eq, Hash)]
pub enum BonusCfg {
    /// `Config::DEFAULT`
    Default,
    /// `Config::DEFAULT.match_paths()`
    MatchPaths,
    /// `Config::DEFAULT` + `set_match_paths()`
    SetMatchPaths,
}

#[derive(Clone, Copy, Debug, PartialEq, Eq, Hash)]
pub struct RCfg {
    pub ignore_case: bool,
    pub normalize: bool,
    pub bonus: BonusCfg,
    pub prefer_prefix: bool,
}

impl RCfg {
    pub fn real(&self) -> Config {
        let mut c = match self.bonus {
            BonusCfg::Default => Config::DEFAULT,
            BonusCfg::MatchPaths => Config::DEFAULT.match_paths(),
            BonusCfg::SetMatchPaths => {
                let mut c = Config::DEFAULT;
                c.set_match_paths();
                c
            }
        };
        c.ignore_case = self.ignore_case;
        c.normalize = self.normalize;
        c.prefer_prefix = self.prefer_prefix;
        c
    }

    /// documented delimiter sets (non-windows)
    pub fn delims(&self) -> &'static [u8] {
        match self.bonus {
            BonusCfg::Default => b"/,:;|",
            BonusCfg::MatchPaths => b"/",
            BonusCfg::SetMatchPaths => b"/:",
        }
    }

    pub fn is_path(&self) -> bool {
        self.bonus != BonusCfg::Default
    }

    /// bonus after whitespace / for whitespace itself
    pub fn w(&self) -> u64 {
        if self.is_path() {
            8
        } else {
            10
        }
    }

    pub fn initial(&self) -> Class {
        if self.is_path() {
            Class::Delim
        } else {
            Class::White
        }
    }

    pub fn index(&self) -> usize {
        (self.ignore_case as usize)
            | (self.normalize as usize) << 1
            | (self.prefer_prefix as usize) << 2
            | (match self.bonus {
                BonusCfg::Default => 0,
                BonusCfg::MatchPaths => 1,
                BonusCfg::SetMatchPaths => 2,
            }) << 3
    }

    pub fn from_index(i: usize) -> RCfg {
        RCfg {
            ignore_case: i & 1 != 0,
            normalize: i & 2 != 0,
            prefer_prefix: i & 4 != 0,
            bonus: match (i >> 3) % 3 {
                0 => BonusCfg::Default,
                1 => BonusCfg::MatchPaths,
                _ => BonusCfg::SetMatchPaths,
            },
        }
    }

    pub const COUNT: usize = 24;

    pub fn show(&self) -> String {
        format!(
            "ic={} norm={} bonus={:?} pp={}",
            self.ignore_case as u8, self.normalize as u8, self.bonus, self.prefer_prefix as u8
        )
    }
}

/// the configured per-character projection: Latin normalization, then simple case folding
#[inline]
pub fn ref_norm(c: char, cfg: &RCfg) -> char {
    let mut c = c;
    if cfg.normalize {
        c = chars::normalize(c);
    }
    if cfg.ignore_case {
        c = chars::to_lower_case(c);
    }
    c
}

pub fn ref_norm_all(h: &[char], cfg: &RCfg) -> Vec<char> {
    h.iter().map(|&c| ref_norm(c, cfg)).collect()
}

/// Character class. `None` if the class of a non-ASCII char is not unambiguous
/// (see DESIGN.md section 4): such characters must not be used in score oracles.
pub fn ref_class(c: char, cfg: &RCfg) -> Option<Class> {
    if c.is_ascii() {
        let b = c as u8;
        return Some(if b.is_ascii_lowercase() {
            Class::Lower
        } else if b.is_ascii_uppercase() {
            Class::Upper
        } else if b.is_ascii_digit() {
            Class::Number
        } else if matches!(b, b' ' | b'\t' | b'\n' | 0x0C | b'\r') {
            Class::White
        } else if b == 0x0B {
            // u8::is_ascii_whitespace and char::is_whitespace differ: ambiguous
            return None;
        } else if cfg.delims().contains(&b) {
            Class::Delim
        } else {
            Class::NonWord
        });
    }
    if c.is_lowercase() {
        // lower case letters that still have a simple case folding (final sigma, long s, ...)
        if chars::to_lower_case(c) != c {
            return None;
        }
        return Some(Class::Lower);
    }
    if c.is_uppercase() != chars::is_upper_case(c) {
        return None;
    }
    Some(if c.is_uppercase() {
        Class::Upper
    } else if c.is_numeric() {
        Class::Number
    } else if c.is_alphabetic() {
        Class::Letter
    } else if c.is_whitespace() {
        Class::White
    } else {
        Class::NonWord
    })
}

/// bonus for a character of class `cur` preceded by a character of class `prev`
pub fn bonus(prev: Class, cur: Class, cfg: &RCfg) -> u64 {
    if cur > Class::Delim {
        match prev {
            Class::White => return cfg.w(),
            Class::Delim => return 9,
            Class::NonWord => return 8,
            _ => (),
        }
    }
    if (prev == Class::Lower && cur == Class::Upper) || (prev != Class::Number && cur == Class::Number)
    {
        5
    } else if cur == Class::White {
        cfg.w()
    } else if cur == Class::NonWord {
        8
    } else {
        0
    }
}

/// per-column bonus of a haystack; `None` if a class is ambiguous
pub fn bonus_row(h: &[char], cfg: &RCfg) -> Option<Vec<u64>> {
    let mut prev = cfg.initial();
    let mut out = Vec::with_capacity(h.len());
    for &c in h {
        let cl = ref_class(c, cfg)?;
        out.push(bonus(prev, cl, cfg));
        prev = cl;
    }
    Some(out)
}

#[derive(Clone, Copy, Debug, PartialEq, Eq)]
pub struct RefScore {
    /// the scheme evaluated in u64
    pub exact: u64,
    /// the scheme evaluated with every step saturating at u16::MAX
    pub stepwise: u64,
    /// whether the running score ever exceeded u16::MAX
    pub overflowed: bool,
}

impl RefScore {
    /// does a returned u16 score agree with the scheme (without wrapping)?
    pub fn accepts(&self, got: u16) -> bool {
        let got = got as u64;
        if !self.overflowed {
            got == self.exact
        } else {
            got == self.exact.min(65535) || got == self.stepwise
        }
    }
}

/// fzf scheme applied to alignment `a` (strictly increasing haystack positions), prefer_prefix off
pub fn ref_score(b: &[u64], a: &[usize]) -> RefScore {
    const MAXS: u64 = 65535;
    let mut s = 16 + 2 * b[a[0]];
    let mut t = s.min(MAXS);
    let mut overflowed = s > MAXS;
    let mut first = b[a[0]];
    for k in 1..a.len() {
        let bk = b[a[k]];
        if a[k] == a[k - 1] + 1 {
            if bk >= 8 && bk > first {
                first = bk;
            }
            let add = 16 + bk.max(first).max(4);
            s += add;
            t = (t + add).min(MAXS);
        } else {
            let gap = (a[k] - a[k - 1] - 1) as u64;
            s = s.saturating_sub(3);
            s = s.saturating_sub(gap - 1);
            t = t.saturating_sub(3);
            t = t.saturating_sub(gap - 1);
            first = bk;
            s += 16 + bk;
            t = (t + 16 + bk).min(MAXS);
        }
        if s > MAXS {
            overflowed = true
        }
    }
    RefScore {
        exact: s,
        stepwise: t,
        overflowed,
    }
}

/// bonus added by prefer_prefix for a match starting at `start` (documented: at most the
/// boundary bonus 8, decreasing with the distance from the start)
pub const MAX_PREFIX_BONUS: u64 = 8;

pub fn is_subseq(needle: &[char], hay_norm: &[char]) -> bool {
    let mut it = hay_norm.iter();
    needle.iter().all(|n| it.any(|h| h == n))
}

pub fn occurrences(needle: &[char], hay_norm: &[char]) -> Vec<usize> {
    if needle.is_empty() || needle.len() > hay_norm.len() {
        return Vec::new();
    }
    (0..=hay_norm.len() - needle.len())
        .filter(|&p| &hay_norm[p..p + needle.len()] == needle)
        .collect()
}

const NEG: i64 = -1;
const NB: usize = 11; // bonus values 0..=10

/// exact maximum of `ref_score` over all alignments (None if no alignment exists)
pub fn opt_score(b: &[u64], hn: &[char], needle: &[char]) -> Option<u64> {
    let n = hn.len();
    let m = needle.len();
    if m == 0 || m > n {
        return None;
    }
    // M[j][f] for the current row, P[j]
    let mut mrow = vec![[NEG; NB]; n];
    let mut prow = vec![NEG; n];
    for j in 0..n {
        if hn[j] == needle[0] {
            mrow[j][b[j] as usize] = (16 + 2 * b[j]) as i64;
        }
    }
    let fill_p = |mrow: &Vec<[i64; NB]>, prow: &mut Vec<i64>| {
        prow[0] = NEG;
        for j in 1..n {
            let mbest = mrow[j - 1].iter().copied().max().unwrap();
            let mut p = NEG;
            if mbest >= 0 {
                p = p.max((mbest - 3).max(0));
            }
            if prow[j - 1] >= 0 {
                p = p.max((prow[j - 1] - 1).max(0));
            }
            prow[j] = p;
        }
    };
    fill_p(&mrow, &mut prow);
    for i in 1..m {
        let mut next = vec![[NEG; NB]; n];
        for j in 1..n {
            if hn[j] != needle[i] {
                continue;
            }
            let bj = b[j];
            // consecutive
            for f in 0..NB {
                let s = mrow[j - 1][f];
                if s < 0 {
                    continue;
                }
                let mut f2 = f as u64;
                if bj >= 8 && bj > f2 {
                    f2 = bj
                }
                let s2 = s + 16 + bj.max(f2).max(4) as i64;
                let cell = &mut next[j][f2 as usize];
                if s2 > *cell {
                    *cell = s2
                }
            }
            // after a gap
            if prow[j - 1] >= 0 {
                let s2 = prow[j - 1] + 16 + bj as i64;
                let cell = &mut next[j][bj as usize];
                if s2 > *cell {
                    *cell = s2
                }
            }
        }
        mrow = next;
        fill_p(&mrow, &mut prow);
    }
    let best = mrow
        .iter()
        .map(|r| r.iter().copied().max().unwrap())
        .max()
        .unwrap();
    (best >= 0).then_some(best as u64)
}

/// literal enumeration of all alignments (self test for `opt_score`, small inputs only)
pub fn brute_opt(b: &[u64], hn: &[char], needle: &[char]) -> Option<u64> {
    fn rec(
        b: &[u64],
        hn: &[char],
        needle: &[char],
        from: usize,
        a: &mut Vec<usize>,
        best: &mut Option<u64>,
    ) {
        if a.len() == needle.len() {
            let s = ref_score(b, a).exact;
            if best.map_or(true, |x| s > x) {
                *best = Some(s)
            }
            return;
        }
        let i = a.len();
        let remaining = needle.len() - i;
        if hn.len() < remaining {
            return;
        }
        for j in from..=hn.len() - remaining {
            if hn[j] == needle[i] {
                a.push(j);
                rec(b, hn, needle, j + 1, a, best);
                a.pop();
            }
        }
    }
    let mut best = None;
    if needle.is_empty() || needle.len() > hn.len() {
        return None;
    }
    rec(b, hn, needle, 0, &mut Vec::new(), &mut best);
    best
}

/// the documented two-matrix affine gap recurrence evaluated naively on the full matrix
pub fn naive_recurrence(b: &[u64], hn: &[char], needle: &[char]) -> Option<u64> {
    naive_recurrence_with(b, hn, needle, &[])
}

/// first-row bonus the optimal matcher adds per absolute column when prefer_prefix is on
/// (`start` = first column whose character equals the first needle character)
pub fn prefix_row_bonus(n: usize, start: usize) -> Vec<u64> {
    (0..n)
        .map(|c| {
            if c < start {
                0
            } else if start == 0 {
                16u64.saturating_sub(c as u64) / 2
            } else {
                14u64.saturating_sub(c as u64) / 2
            }
        })
        .collect()
}

/// the same recurrence with an extra bonus added to the first needle row (prefix preference)
pub fn naive_recurrence_with(b: &[u64], hn: &[char], needle: &[char], row0_bonus: &[u64]) -> Option<u64> {
    let n = hn.len();
    let m = needle.len();
    if m == 0 || m > n {
        return None;
    }
    #[derive(Clone, Copy)]
    struct Cell {
        score: i64,
        cb: u64,
    }
    let unm = Cell { score: NEG, cb: 0 };
    let mut mrow = vec![unm; n];
    let mut prow = vec![NEG; n];
    for j in 0..n {
        if hn[j] == needle[0] {
            mrow[j] = Cell {
                score: (16 + 2 * b[j] + row0_bonus.get(j).copied().unwrap_or(0)) as i64,
                cb: b[j],
            };
        }
    }
    let fill_p = |mrow: &Vec<Cell>, prow: &mut Vec<i64>| {
        prow[0] = NEG;
        for j in 1..n {
            let mut p = NEG;
            if mrow[j - 1].score >= 0 {
                p = p.max((mrow[j - 1].score - 3).max(0));
            }
            if prow[j - 1] >= 0 {
                p = p.max((prow[j - 1] - 1).max(0));
            }
            prow[j] = p;
        }
    };
    fill_p(&mrow, &mut prow);
    for i in 1..m {
        let mut next = vec![unm; n];
        for j in 1..n {
            if hn[j] != needle[i] {
                continue;
            }
            let bj = b[j];
            let mc = mrow[j - 1];
            let p = prow[j - 1];
            let mut sm = NEG;
            let mut cb2 = 0;
            if mc.score >= 0 {
                cb2 = mc.cb.max(4);
                if bj >= 8 && bj > cb2 {
                    cb2 = bj
                }
                sm = mc.score + cb2.max(bj) as i64;
            }
            let sp = if p >= 0 { p + bj as i64 } else { NEG };
            if sm < 0 && sp < 0 {
                continue;
            }
            next[j] = if sm > sp {
                Cell {
                    score: sm + 16,
                    cb: cb2,
                }
            } else {
                Cell {
                    score: sp + 16,
                    cb: bj,
                }
            };
        }
        mrow = next;
        fill_p(&mrow, &mut prow);
    }
    let best = mrow.iter().map(|c| c.score).max().unwrap();
    (best >= 0).then_some(best as u64)
}

// ---------------------------------------------------------------------------------------------
// calling the real matcher

#[derive(Clone, Copy, Debug, PartialEq, Eq, Hash)]
pub enum Algo {
    Fuzzy,
    Greedy,
    Substring,
    Prefix,
    Postfix,
    Exact,
}

pub const ALGOS: [Algo; 6] = [
    Algo::Fuzzy,
    Algo::Greedy,
    Algo::Substring,
    Algo::Prefix,
    Algo::Postfix,
    Algo::Exact,
];

impl Algo {
    pub fn name(self) -> &'static str {
        match self {
            Algo::Fuzzy => "fuzzy",
            Algo::Greedy => "greedy",
            Algo::Substring => "substring",
            Algo::Prefix => "prefix",
            Algo::Postfix => "postfix",
            Algo::Exact => "exact",
        }
    }
}

pub fn call(
    m: &mut Matcher,
    algo: Algo,
    h: Utf32Str<'_>,
    n: Utf32Str<'_>,
    indices: Option<&mut Vec<u32>>,
) -> Option<u16> {
    match (algo, indices) {
        (Algo::Fuzzy, None) => m.fuzzy_match(h, n),
        (Algo::Fuzzy, Some(i)) => m.fuzzy_indices(h, n, i),
        (Algo::Greedy, None) => m.fuzzy_match_greedy(h, n),
        (Algo::Greedy, Some(i)) => m.fuzzy_indices_greedy(h, n, i),
        (Algo::Substring, None) => m.substring_match(h, n),
        (Algo::Substring, Some(i)) => m.substring_indices(h, n, i),
        (Algo::Prefix, None) => m.prefix_match(h, n),
        (Algo::Prefix, Some(i)) => m.prefix_indices(h, n, i),
        (Algo::Postfix, None) => m.postfix_match(h, n),
        (Algo::Postfix, Some(i)) => m.postfix_indices(h, n, i),
        (Algo::Exact, None) => m.exact_match(h, n),
        (Algo::Exact, Some(i)) => m.exact_indices(h, n, i),
    }
}

thread_local! {
    static LAST_PANIC: RefCell<String> = const { RefCell::new(String::new()) };
}

/// installs a panic hook that records the message (per thread) instead of printing it
pub fn install_quiet_panic_hook() {
    std::panic::set_hook(Box::new(|info| {
        let msg = if let Some(s) = info.payload().downcast_ref::<&str>() {
            (*s).to_owned()
        } else if let Some(s) = info.payload().downcast_ref::<String>() {
            s.clone()
        } else {
            "<non-string panic>".to_owned()
        };
        let mut loc = info
            .location()
            .map(|l| format!("{}:{}", l.file(), l.line()))
            .unwrap_or_default();
        // a panic raised inside the standard library (slice indexing, `encode_utf8`, arithmetic helpers ...) belongs to whoever
        // called it: the innermost frame that is neither std nor the panic machinery decides
        if loc.contains("/rustc/") || loc.contains("/rustlib/") {
            let bt = std::backtrace::Backtrace::force_capture().to_string();
            for line in bt.lines() {
                let l = line.trim();
                let Some((_, sym)) = l.split_once(": ") else { continue };
                let sym = sym.trim_start_matches('<');
                if sym.starts_with("nucleo_matcher::") || sym.starts_with("nucleo::") {
                    loc = format!("/repo/ (panic raised at {loc} on behalf of {})", sym.split('<').next().unwrap_or(sym));
                    break;
                }
                if sym.starts_with("vmon::") && !sym.contains("panic_hook") {
                    break;
                }
            }
        }
        LAST_PANIC.with(|p| *p.borrow_mut() = format!("{msg} @ {loc}"));
    }));
}

pub fn last_panic() -> String {
    LAST_PANIC.with(|p| p.borrow().clone())
}

/// whether a panic location ("file:line") lies in the code under test: /repo, or wherever the harness was pointed at
/// (background runs build against a copy); everything that is neither the harness itself nor the toolchain / registry
pub fn in_repository(loc: &str) -> bool {
    loc.starts_with("/repo/")
        || (loc.starts_with('/')
            && !loc.starts_with(env!("CARGO_MANIFEST_DIR"))
            && !loc.contains("/rustc/")
            && !loc.contains("/rustlib/")
            && !loc.contains("/.cargo/")
            && (loc.contains("/matcher/src/") || loc.contains("/repo/src/")))
}

/// runs `f` catching panics; the error is "message @ file:line"
pub fn caught<R>(f: impl FnOnce() -> R) -> Result<R, String> {
    catch_unwind(AssertUnwindSafe(f)).map_err(|_| last_panic())
}

/// A text together with the representations it can be held in.
#[derive(Clone, Debug)]
pub struct Text {
    pub chars: Vec<char>,
    pub bytes: Vec<u8>,
    pub ascii: bool,
}

impl Text {
    pub fn new(chars: Vec<char>) -> Text {
        let ascii = chars.iter().all(|c| c.is_ascii());
        let bytes = if ascii {
            chars.iter().map(|&c| c as u8).collect()
        } else {
            Vec::new()
        };
        Text {
            chars,
            bytes,
            ascii,
        }
    }
    pub fn len(&self) -> usize {
        self.chars.len()
    }
    pub fn is_empty(&self) -> bool {
        self.chars.is_empty()
    }
    /// `ascii_repr` is only honoured if the text is ASCII
    pub fn view(&self, ascii_repr: bool) -> Utf32Str<'_> {
        if ascii_repr && self.ascii {
            Utf32Str::Ascii(&self.bytes)
        } else {
            Utf32Str::Unicode(&self.chars)
        }
    }
}

/// Runs one monitor case; a panic is attributed by its location: inside /repo it is a violation of
/// `prop`, anywhere else it is a monitor bug (inconclusive). Returns false if it panicked.
pub fn guard_case(rep: &mut crate::report::Report, prop: &str, case_id: &str, f: impl FnOnce(&mut crate::report::Report)) -> bool {
    let r = {
        let rep_ref: &mut crate::report::Report = rep;
        catch_unwind(AssertUnwindSafe(|| f(rep_ref)))
    };
    match r {
        Ok(()) => true,
        Err(_) => {
            let msg = last_panic();
            let loc = msg.rsplit(" @ ").next().unwrap_or("").to_owned();
            if crate::refm::in_repository(&loc) {
                rep.violation(
                    prop,
                    "panic",
                    format!("panic@{loc}"),
                    crate::jobj! {"message" => msg, "case_id" => case_id.to_owned()},
                );
            } else {
                rep.inconclusive(format!("monitor panicked outside the repository code: {msg}"));
            }
            false
        }
    }
}
