//! Differential monitors for the single threaded matcher: C01 (relation), C02 (indices),
//! C03 (score of the reported alignment), C05 (anchored relations) and the totality part
//! of C10 (every call runs under catch_unwind).
use nucleo_matcher::Matcher;

use crate::jobj;
use crate::json::{show_chars, J};
use crate::refm::*;
use crate::report::Report;
use crate::rng::{mix, Hasher64, Rng};
use crate::ugen::*;

pub struct Props {
    pub c01: bool,
    pub c02: bool,
    pub c03: bool,
    pub c05: bool,
    pub c10: bool,
}

impl Props {
    pub fn parse(s: &str) -> Props {
        let has = |p: &str| s.split(',').any(|x| x == p);
        Props {
            c01: has("C01"),
            c02: has("C02"),
            c03: has("C03"),
            c05: has("C05"),
            c10: has("C10"),
        }
    }
}

#[derive(Clone)]
pub struct Case {
    pub hay: Text,
    pub needle: Text,
    pub cfg: RCfg,
    pub profile: &'static str,
}

impl Case {
    pub fn to_json(&self) -> J {
        jobj! {
            "hay" => show_chars(&self.hay.chars),
            "needle" => show_chars(&self.needle.chars),
            "hay_len" => self.hay.len(),
            "needle_len" => self.needle.len(),
            "cfg" => self.cfg.show(),
            "profile" => self.profile,
        }
    }
    pub fn to_json_short(&self) -> J {
        self.short_json()
    }
    fn short_json(&self) -> J {
        if self.hay.len() <= 200 {
            self.to_json()
        } else {
            let mut h = self.hay.chars[..60].to_vec();
            h.extend("...".chars());
            let mut n = self.needle.chars[..self.needle.len().min(60)].to_vec();
            if self.needle.len() > 60 {
                n.extend("...".chars());
            }
            jobj! {
                "hay_prefix" => show_chars(&h),
                "needle_prefix" => show_chars(&n),
                "hay_len" => self.hay.len(),
                "needle_len" => self.needle.len(),
                "cfg" => self.cfg.show(),
                "profile" => self.profile,
            }
        }
    }
}

fn pick_len(rng: &mut Rng) -> usize {
    match rng.below(20) {
        0 => 0,
        1..=9 => rng.range(1, 8),
        10..=16 => rng.range(4, 24),
        _ => rng.range(10, 60),
    }
}

/// ordinary small case
pub fn gen_small(rng: &mut Rng, pools: &Pools, score_only_profiles: bool) -> Case {
    let cfg = gen_cfg(rng, !score_only_profiles);
    let (profile, pname) = if score_only_profiles {
        match rng.below(3) {
            0 | 1 => (Profile::ScoreAscii, "score-ascii"),
            _ => (Profile::ScoreUnicode, "score-unicode"),
        }
    } else {
        match rng.below(10) {
            0..=2 => (Profile::TinyAscii, "tiny-ascii"),
            3 | 4 => (Profile::ScoreAscii, "score-ascii"),
            5 => (Profile::ScoreUnicode, "score-unicode"),
            6..=8 => (Profile::Moved, "moved"),
            _ => (Profile::Wild, "wild"),
        }
    };
    let alphabet = gen_alphabet(rng, pools, profile);
    let len = pick_len(rng);
    let hay = gen_text(rng, &alphabet, len);
    let max_needle = if rng.chance(1, 8) { 16 } else { 6 };
    let (needle, _) = gen_needle(rng, &hay, &alphabet, &cfg, max_needle);
    Case {
        hay: Text::new(hay),
        needle: Text::new(needle),
        cfg,
        profile: pname,
    }
}

/// every moved character placed first / middle / last with the needle holding its image
pub fn gen_placed(rng: &mut Rng, pools: &Pools) -> Case {
    let cfg = gen_cfg(rng, true);
    let c = if rng.chance(1, 4) && !pools.lower_folding.is_empty() {
        *rng.pick(&pools.lower_folding)
    } else {
        *rng.pick(&pools.moved)
    };
    let filler: Vec<char> = "xyq-/ ".chars().collect();
    let len = rng.range(1, 7);
    let mut hay = gen_text(rng, &filler, len);
    let pos = match rng.below(3) {
        0 => 0,
        1 => len - 1,
        _ => rng.below(len),
    };
    hay[pos] = c;
    if rng.coin() {
        let p2 = rng.below(len);
        hay[p2] = c;
    }
    // needle: image of c possibly with neighbours
    let hn = ref_norm_all(&hay, &cfg);
    let mut needle = Vec::new();
    let lo = pos.saturating_sub(rng.below(2));
    let hi = (pos + 1 + rng.below(2)).min(len);
    if rng.chance(3, 4) {
        needle.extend_from_slice(&hn[lo..hi]);
    } else {
        // subsequence: image and the last char
        needle.push(hn[pos]);
        if pos + 1 < len {
            needle.push(hn[len - 1]);
        }
    }
    if rng.chance(1, 6) {
        // the char itself
        needle = vec![c];
    }
    normalize_needle(&mut needle, &cfg);
    Case {
        hay: Text::new(hay),
        needle: Text::new(needle),
        cfg,
        profile: "placed-moved",
    }
}

/// sizes around the limits that select the greedy fallback / saturating scores
pub fn gen_big(rng: &mut Rng, pools: &Pools, long_needles: bool) -> Case {
    let cfg = gen_cfg(rng, true);
    let unicode = rng.chance(1, 3);
    let (hl, nl): (usize, usize) = if long_needles {
        // very long needles: contiguous and gapped, boundary rich
        let nl = *rng.pick(&[2040usize, 2047, 2048, 2049, 2600, 3000, 4000, 5000, 8000]);
        (nl + rng.below(400) + 1, nl)
    } else {
        match rng.below(12) {
            0 => (321, 319),
            1 => (400, 256),
            2 => (401, 256),
            3 => (1024, 100),
            4 => (1025, 100),
            5 => (65535 + rng.below(3), rng.range(1, 3)),
            6 => (51199 + rng.below(3), 2),
            7 => (34132 + rng.below(3), 3),
            8 => (rng.range(2040, 2060), rng.range(40, 52)),
            9 => (rng.range(2040, 2060), rng.range(2030, 2049)),
            10 => (rng.range(300, 340), rng.range(290, 320)),
            _ => (rng.range(100, 30000), rng.range(2, 12)),
        }
    };
    let nl = nl.min(hl);
    let mut alphabet: Vec<char> = match rng.below(4) {
        0 => vec!['a'],
        1 => vec!['a', 'b'],
        2 => "ab /A".chars().collect(),
        _ => "abcdefgh _-/.AB1".chars().collect(),
    };
    if unicode {
        alphabet.push(*rng.pick(&pools.curated));
        if rng.coin() {
            alphabet.push(*rng.pick(&pools.moved));
        }
    }
    let hay = gen_text(rng, &alphabet, hl);
    let hn = ref_norm_all(&hay, &cfg);
    let mut needle: Vec<char> = match rng.below(4) {
        0 => {
            // contiguous substring
            let s = rng.below(hl - nl + 1);
            hn[s..s + nl].to_vec()
        }
        1 => gen_text(rng, &alphabet, nl),
        _ => {
            // spread subsequence
            let mut out = Vec::with_capacity(nl);
            let mut pos = 0usize;
            for k in 0..nl {
                let remaining_needle = nl - k;
                let slack = hl - pos - remaining_needle;
                let skip = if slack == 0 { 0 } else { rng.below(slack.min(3) + 1) };
                pos += skip;
                out.push(hn[pos]);
                pos += 1;
            }
            out
        }
    };
    if rng.chance(1, 5) && !needle.is_empty() {
        let i = rng.below(needle.len());
        needle[i] = *rng.pick(&alphabet);
    }
    normalize_needle(&mut needle, &cfg);
    Case {
        hay: Text::new(hay),
        needle: Text::new(needle),
        cfg,
        profile: if long_needles { "long-needle" } else { "big" },
    }
}

/// big haystacks made of filler with only a handful of interesting characters: the prefilter window
/// is wide (greedy fallback / slab limits) while the relation itself is decided by a few positions
/// one gap of a length around 2^16 / 2^17 between two matched characters (the gap penalty is charged per skipped character and
/// floors at zero; a penalty computed for the whole gap at once has to survive lengths that do not fit 16 bits)
pub fn gen_long_gap(rng: &mut Rng) -> Case {
    let cfg = gen_cfg(rng, true);
    let filler = *rng.pick(&['x', '-', ' ', '\u{4e2d}']);
    let gap = *rng.pick(&[65_534usize, 65_535, 65_536, 65_537, 65_538, 65_540, 65_550, 65_566, 65_600, 131_071, 131_072, 131_073, 131_080]);
    let head: Vec<char> = rng.pick(&["a", "ab", "/a", " ab", "Ab"]).chars().collect();
    let tail: Vec<char> = rng.pick(&["b", "bc", "c", "/c", "B"]).chars().collect();
    let k = rng.below(3);
    let mut hay: Vec<char> = gen_text(rng, &['q', ' '], k);
    hay.extend(head.iter());
    hay.extend(std::iter::repeat(filler).take(gap));
    hay.extend(tail.iter());
    let k = rng.below(3);
    hay.extend(gen_text(rng, &['q', ' '], k));
    let mut needle: Vec<char> = head.iter().chain(tail.iter()).copied().filter(|c| c.is_alphanumeric()).collect();
    normalize_needle(&mut needle, &cfg);
    Case {
        hay: Text::new(hay),
        needle: Text::new(needle),
        cfg,
        profile: "long-gap",
    }
}

pub fn gen_sparse_big(rng: &mut Rng, pools: &Pools) -> Case {
    let cfg = gen_cfg(rng, true);
    let unicode = rng.coin();
    let filler = if unicode { *rng.pick(&['\u{e9}', '\u{4e2d}', 'x']) } else { *rng.pick(&['x', '-', ' ']) };
    // includes lengths just above 2^16 and 2^17 (16 bit gap / offset arithmetic)
    let hl = *rng.pick(&[300usize, 1100, 5000, 12000, 40000, 70000, 65536, 65536, 131072]) + rng.below(50);
    let mut hay: Vec<char> = vec![filler; hl];
    let mut specials: Vec<char> = "abAB1/".chars().collect();
    if unicode {
        specials.push(*rng.pick(&pools.curated));
        // far-away characters with an ASCII image (KELVIN SIGN is the only one above the Latin blocks), and their plain partners
        if rng.coin() {
            specials = vec!['\u{212a}', *rng.pick(&['k', 'K', 'a', '\u{17f}', 's', '\u{212b}']), *rng.pick(&['b', '\u{212a}', 'o'])];
        }
    }
    rng.shuffle(&mut specials);
    specials.truncate(rng.range(1, 3));
    let k = rng.range(1, 5);
    let mut placed: Vec<(usize, char)> = Vec::new();
    for _ in 0..k {
        let pos = match rng.below(4) {
            0 => rng.below(3),
            1 => hl - 1 - rng.below(3),
            _ => rng.below(hl),
        };
        let c = *rng.pick(&specials);
        hay[pos] = c;
        placed.push((pos, c));
    }
    placed.sort();
    placed.dedup_by_key(|p| p.0);
    // needle over the special characters: their sequence, with duplicates / drops / swaps
    let mut needle: Vec<char> = placed.iter().map(|p| ref_norm(p.1, &cfg)).collect();
    match rng.below(6) {
        0 if !needle.is_empty() => {
            let i = rng.below(needle.len());
            let c = needle[i];
            needle.insert(i, c); // doubled character
        }
        1 if needle.len() >= 2 => {
            let i = rng.below(needle.len() - 1);
            needle.swap(i, i + 1);
        }
        2 if needle.len() >= 2 => {
            let i = rng.below(needle.len());
            needle.remove(i);
        }
        3 => needle.push(ref_norm(*rng.pick(&specials), &cfg)),
        _ => (),
    }
    if rng.chance(1, 4) {
        let f = ref_norm(filler, &cfg);
        let i = rng.below(needle.len() + 1);
        needle.insert(i, f);
    }
    normalize_needle(&mut needle, &cfg);
    Case {
        hay: Text::new(hay),
        needle: Text::new(needle),
        cfg,
        profile: "sparse-big",
    }
}

/// anchored-algorithm oriented cases (C05): whitespace at both ends, needles starting with non letters
pub fn gen_anchored(rng: &mut Rng, pools: &Pools) -> Case {
    let cfg = gen_cfg(rng, false);
    let unicode = rng.chance(1, 3);
    let ws: Vec<char> = if unicode {
        vec![' ', '\t', '\n', '\u{a0}', '\u{3000}', '\r']
    } else {
        vec![' ', '\t', '\n', '\r', '\u{c}']
    };
    let mut core_alpha: Vec<char> = "abAB-.1/ x".chars().collect();
    if unicode {
        core_alpha.push(*rng.pick(&pools.curated));
        core_alpha.push(*rng.pick(&pools.curated));
        if rng.coin() {
            core_alpha.push(*rng.pick(&pools.moved));
        }
    }
    if rng.chance(1, 3) {
        for _ in 0..rng.range(1, 3) {
            core_alpha.push(*rng.pick(ASCII_POOL) as char);
        }
    }
    if rng.coin() {
        rng.shuffle(&mut core_alpha);
        core_alpha.truncate(rng.range(2, 5));
    }
    let lead = if rng.coin() { rng.below(3) } else { 0 };
    let trail = if rng.coin() { rng.below(3) } else { 0 };
    let core_len = rng.range(0, 12);
    let mut hay = gen_text(rng, &ws, lead);
    hay.extend(gen_text(rng, &core_alpha, core_len));
    hay.extend(gen_text(rng, &ws, trail));
    let hn = ref_norm_all(&hay, &cfg);
    let mut needle: Vec<char> = match rng.below(10) {
        // whole trimmed text
        0 | 1 => hn[lead..lead + core_len].to_vec(),
        // prefix of the core
        2 | 3 => {
            let k = rng.range(0, core_len);
            hn[lead..lead + k].to_vec()
        }
        // postfix of the core
        4 | 5 => {
            let k = rng.range(0, core_len);
            hn[lead + core_len - k..lead + core_len].to_vec()
        }
        // arbitrary substring (may include the surrounding whitespace)
        6 | 7 if !hay.is_empty() => {
            let k = rng.range(1, hay.len().min(6));
            let s = rng.below(hay.len() - k + 1);
            hn[s..s + k].to_vec()
        }
        // needle starting with several non letters
        8 => {
            let k = rng.range(1, 3);
            let mut n = gen_text(rng, &['-', '.', '1', '/'], k);
            let k2 = rng.range(0, 3);
            n.extend(gen_text(rng, &core_alpha, k2));
            n
        }
        _ => {
            let k = rng.range(0, 5);
            gen_text(rng, &core_alpha, k)
        }
    };
    if rng.chance(1, 8) && !needle.is_empty() {
        let i = rng.below(needle.len());
        needle[i] = *rng.pick(&core_alpha);
    }
    normalize_needle(&mut needle, &cfg);
    Case {
        hay: Text::new(hay),
        needle: Text::new(needle),
        cfg,
        profile: "anchored",
    }
}

fn is_ws(c: char) -> bool {
    // U+000B is excluded from every generator (the two representations legitimately differ on it)
    c.is_whitespace()
}

/// reference decider for the anchored algorithms: Some(start index) if it matches
pub fn ref_anchored(algo: Algo, hay: &[char], hn: &[char], needle: &[char]) -> Option<usize> {
    let n = needle.len();
    if n == 0 {
        return None; // handled separately (always Some(0), no indices)
    }
    let lead = if is_ws(needle[0]) {
        0
    } else {
        hay.iter().take_while(|&&c| is_ws(c)).count()
    };
    let trail = if is_ws(needle[n - 1]) {
        0
    } else {
        hay.iter().rev().take_while(|&&c| is_ws(c)).count()
    };
    match algo {
        Algo::Prefix => {
            if lead + n <= hay.len() && &hn[lead..lead + n] == needle {
                Some(lead)
            } else {
                None
            }
        }
        Algo::Postfix => {
            let end = hay.len().checked_sub(trail)?;
            let start = end.checked_sub(n)?;
            (&hn[start..end] == needle).then_some(start)
        }
        Algo::Exact => {
            let end = hay.len().checked_sub(trail)?;
            if lead > end {
                return None;
            }
            (&hn[lead..end] == needle).then_some(lead)
        }
        _ => unreachable!(),
    }
}

pub struct Eval<'a> {
    pub rep: &'a mut Report,
    pub props: &'a Props,
    pub matcher: &'a mut Matcher,
    pub case_id: String,
    /// attribute every violation to this property instead (used by the C16 coherence probes)
    pub attribute_to: Option<&'static str>,
    /// the configuration the caller believes the long lived matcher to have: like a real caller the monitor only
    /// assigns `matcher.config` when it wants a different one, so state that a call leaves behind in the matcher
    /// reaches the following cases (None: assign unconditionally)
    pub believed: Option<&'a mut Option<RCfg>>,
}

fn viol(ev: &mut Eval, prop: &str, kind: &str, class: &str, entry: &str, case: &Case, extra: J) {
    let sig = format!("{class}|{entry}");
    let detail = jobj! {
        "class" => class,
        "entry" => entry,
        "case" => case.short_json(),
        "case_id" => ev.case_id.clone(),
        "info" => extra,
    };
    match ev.attribute_to {
        Some(p) => ev.rep.violation(p, &format!("coherence/{prop}/{kind}"), sig, detail),
        None => ev.rep.violation(prop, kind, sig, detail),
    }
}

fn junk_vec(rng: &mut Rng) -> Vec<u32> {
    match rng.below(4) {
        0 => Vec::new(),
        1 => {
            let mut v = Vec::with_capacity(3);
            v.extend([7u32, 7, 1]);
            v
        }
        _ => {
            let len = rng.below(6);
            let mut v = Vec::with_capacity(len + rng.below(3));
            for _ in 0..len {
                v.push(rng.next_u64() as u32);
            }
            v
        }
    }
}

/// evaluates one case under one representation combination
pub fn eval_case(ev: &mut Eval, rng: &mut Rng, case: &Case, hr_ascii: bool, nr_ascii: bool) {
    let cfg = case.cfg;
    let h = case.hay.view(hr_ascii);
    let n = case.needle.view(nr_ascii);
    let hay = &case.hay.chars;
    let needle = &case.needle.chars;
    let hn = ref_norm_all(hay, &cfg);
    let arm = match (h.is_ascii(), n.is_ascii()) {
        (true, true) => "AA",
        (true, false) => "AU",
        (false, true) => "UA",
        (false, false) => "UU",
    };
    let held_class = if h.is_ascii() && !n.is_ascii() && case.needle.ascii {
        "ascii-haystack/unicode-held-ascii-needle"
    } else {
        "general"
    };
    ev.rep.count(&format!("arm.{arm}"));
    match ev.believed.as_mut() {
        Some(b) if **b == Some(cfg) => ev.rep.count("calls-under-a-configuration-set-earlier"),
        Some(b) => {
            ev.matcher.config = cfg.real();
            **b = Some(cfg);
        }
        None => ev.matcher.config = cfg.real(),
    }
    let brow = if cfg.prefer_prefix {
        None
    } else {
        bonus_row(hay, &cfg)
    };

    for algo in ALGOS {
        // score-only call
        let m = &mut *ev.matcher;
        let r1 = caught(|| call(m, algo, h, n, None));
        // indices call with junk prefix
        let mut idx = junk_vec(rng);
        let before = idx.clone();
        let m = &mut *ev.matcher;
        let r2 = caught(|| call(m, algo, h, n, Some(&mut idx)));
        ev.rep.add("calls", 2);
        let entry_m = format!("{}_match/{arm}", algo.name());
        let entry_i = format!("{}_indices/{arm}", algo.name());
        let (s1, s2) = match (r1, r2) {
            (Ok(a), Ok(b)) => (a, b),
            (a, b) => {
                ev.rep.count("panics");
                if ev.props.c10 {
                    let msg = a.err().or(b.err()).unwrap_or_default();
                    let loc = msg.rsplit(" @ ").next().unwrap_or("").to_owned();
                    viol(
                        ev,
                        "C10",
                        "panic",
                        &format!("panic@{loc}"),
                        algo.name(),
                        case,
                        jobj! {"message" => msg},
                    );
                }
                // a panicking matcher may be left in any state: replace it
                *ev.matcher = Matcher::new(cfg.real());
                continue;
            }
        };

        // ---- C01: relation for the four fuzzy entry points
        if ev.props.c01 && matches!(algo, Algo::Fuzzy | Algo::Greedy) {
            let expected = is_subseq(needle, &hn);
            ev.rep.count(if expected { "c01.related" } else { "c01.unrelated" });
            for (got, entry) in [(s1.is_some(), &entry_m), (s2.is_some(), &entry_i)] {
                if got != expected {
                    viol(
                        ev,
                        "C01",
                        if expected { "missed-match" } else { "false-match" },
                        held_class,
                        entry,
                        case,
                        jobj! {"expected" => expected, "got" => got},
                    );
                }
            }
        }

        // ---- C05: anchored relations
        let mut expected_start: Option<Option<usize>> = None;
        if matches!(algo, Algo::Prefix | Algo::Postfix | Algo::Exact) {
            let exp = if needle.is_empty() {
                None
            } else {
                ref_anchored(algo, hay, &hn, needle)
            };
            expected_start = Some(exp);
            if ev.props.c05 {
                let expected = needle.is_empty() || exp.is_some();
                ev.rep.count(if expected { "c05.related" } else { "c05.unrelated" });
                for (got, entry) in [(s1.is_some(), &entry_m), (s2.is_some(), &entry_i)] {
                    if got != expected {
                        viol(
                            ev,
                            "C05",
                            if expected { "missed-match" } else { "false-match" },
                            held_class,
                            entry,
                            case,
                            jobj! {"expected" => expected, "got" => got},
                        );
                    }
                }
            }
        }
        let mut sub_expected: Option<Option<usize>> = None;
        if algo == Algo::Substring {
            let occ = occurrences(needle, &hn);
            let expected = needle.is_empty() || !occ.is_empty();
            // leftmost occurrence with the highest first-character bonus
            let mut best: Option<usize> = None;
            if let Some(b) = bonus_row(hay, &cfg) {
                let mut best_bonus = 0;
                for &p in &occ {
                    if best.is_none() || b[p] > best_bonus {
                        best = Some(p);
                        best_bonus = b[p];
                    }
                }
                sub_expected = Some(best);
            }
            if ev.props.c05 {
                ev.rep.count(if expected { "c05.related" } else { "c05.unrelated" });
                for (got, entry) in [(s1.is_some(), &entry_m), (s2.is_some(), &entry_i)] {
                    if got != expected {
                        viol(
                            ev,
                            "C05",
                            if expected { "missed-match" } else { "false-match" },
                            held_class,
                            entry,
                            case,
                            jobj! {"expected" => expected, "got" => got, "occurrences" => occ.len()},
                        );
                    }
                }
            }
        }

        // ---- C02: the appended indices are a valid witness
        let appended: &[u32] = if idx.len() >= before.len() {
            &idx[before.len()..]
        } else {
            &[]
        };
        let mut witness_ok = true;
        if ev.props.c02 || ev.props.c03 || ev.props.c05 {
            let mut problem: Option<String> = None;
            if idx.len() < before.len() || idx[..before.len()] != before[..] {
                problem = Some("earlier content modified".into());
            } else if s2.is_none() {
                if !appended.is_empty() {
                    problem = Some(format!("failed match appended {} indices", appended.len()));
                }
            } else if appended.len() != needle.len() {
                problem = Some(format!(
                    "{} indices for a needle of {} chars",
                    appended.len(),
                    needle.len()
                ));
            } else {
                for k in 0..appended.len() {
                    let i = appended[k] as usize;
                    if i >= hay.len() {
                        problem = Some(format!("index {i} outside haystack"));
                        break;
                    }
                    if k > 0 && appended[k] <= appended[k - 1] {
                        problem = Some("indices not strictly increasing".into());
                        break;
                    }
                    if hn[i] != needle[k] {
                        problem = Some(format!(
                            "haystack char at {i} does not normalize to needle char {k}"
                        ));
                        break;
                    }
                }
                if problem.is_none() && !appended.is_empty() && algo != Algo::Fuzzy && algo != Algo::Greedy {
                    let contiguous = appended.windows(2).all(|w| w[1] == w[0] + 1);
                    if !contiguous {
                        problem = Some("indices not contiguous".into());
                    } else if let Some(exp) = expected_start {
                        // anchoring (only checkable if the relation itself holds)
                        if let Some(start) = exp {
                            if appended[0] as usize != start {
                                problem = Some(format!(
                                    "anchored at {} instead of {start}",
                                    appended[0]
                                ));
                            }
                        }
                    }
                }
            }
            if let Some(p) = problem {
                witness_ok = false;
                if ev.props.c02 {
                    viol(
                        ev,
                        "C02",
                        "invalid-witness",
                        &format!(
                            "{held_class}:{}",
                            p.chars().filter(|c| !c.is_ascii_digit()).collect::<String>()
                        ),
                        &entry_i,
                        case,
                        jobj! {"problem" => p, "indices" => appended.iter().map(|&x| x as u64).collect::<Vec<u64>>()},
                    );
                }
            } else if ev.props.c02 && s2.is_some() && !needle.is_empty() {
                ev.rep.count("c02.witnesses");
            }
        }

        // ---- C05: substring reports the leftmost best-bonus occurrence
        if ev.props.c05 && algo == Algo::Substring && witness_ok && s2.is_some() && !needle.is_empty() {
            if let Some(Some(best)) = sub_expected {
                ev.rep.count("c05.substring-position-checked");
                if appended[0] as usize != best {
                    viol(
                        ev,
                        "C05",
                        "wrong-occurrence",
                        held_class,
                        &entry_i,
                        case,
                        jobj! {"expected_start" => best, "got_start" => appended[0]},
                    );
                }
            }
        }

        // ---- C03: score-only == indices variant, score == scheme(alignment)
        if ev.props.c03 && !cfg.prefer_prefix {
            if s1 != s2 {
                viol(
                    ev,
                    "C03",
                    "score-variants-differ",
                    held_class,
                    &entry_m,
                    case,
                    jobj! {"match" => s1, "indices" => s2},
                );
            }
            if let (Some(score), true, Some(b)) = (s2, witness_ok, brow.as_ref()) {
                if needle.is_empty() {
                    if score != 0 {
                        viol(ev, "C03", "empty-needle-score", held_class, &entry_i, case, jobj! {"score" => score});
                    }
                } else {
                    let a: Vec<usize> = appended.iter().map(|&x| x as usize).collect();
                    let r = ref_score(b, &a);
                    ev.rep.count("c03.scored");
                    if r.overflowed {
                        ev.rep.count("c03.beyond-u16");
                    }
                    if !r.accepts(score) {
                        let wrapped = r.overflowed && (score as u64) == (r.exact & 0xffff);
                        viol(
                            ev,
                            "C03",
                            if wrapped { "score-wrapped" } else { "score-mismatch" },
                            held_class,
                            &entry_i,
                            case,
                            jobj! {"score" => score, "scheme" => r.exact, "stepwise" => r.stepwise,
                                   "indices" => if a.len() <= 64 { J::from(a.iter().map(|&x| x as u64).collect::<Vec<u64>>()) } else { J::Null }},
                        );
                    }
                }
            }
        }
    }
}

pub struct MatchOpts {
    pub seed: u64,
    pub shard: u64,
    pub cases: u64,
    pub time_limit: f64,
    /// only generate from the long-needle generator (used for the release build pass of C03/C10)
    pub long_only: bool,
    pub replay: Option<u64>,
}

/// substring needles with a (possibly long) run of non-letters before their first letter, and haystacks made of near
/// misses: copies of the needle with exactly one position changed, optionally followed by a real occurrence
/// needles that overlap themselves at a long period (`1----------------1`): the haystack holds overlapping occurrences,
/// the earlier ones are worse (or fail behind the non-letter prefix), so the search has to restart inside a hit
pub fn gen_self_overlap(rng: &mut Rng) -> Case {
    let cfg = gen_cfg(rng, false);
    let period = *rng.pick(&[1usize, 2, 3, 8, 15, 16, 17, 18, 24, 31, 32, 33]);
    let first = *rng.pick(&['1', '-', '/', '0']);
    let filler = *rng.pick(&['-', '.', '2', ' ']);
    let filler = if filler == first { '+' } else { filler };
    let mut unit = vec![first];
    unit.extend(std::iter::repeat(filler).take(period - 1));
    let reps = rng.range(1, 2);
    let mut core: Vec<char> = Vec::new();
    for _ in 0..reps {
        core.extend(unit.iter());
    }
    core.push(first);
    let kt = rng.below(3);
    let tail: Vec<char> = gen_text(rng, &['a', 'b', 'Z'], kt);
    let mut needle = core.clone();
    needle.extend(tail.iter());
    let k0 = rng.below(3);
    let mut hay: Vec<char> = gen_text(rng, &['q', ' ', 'x'], k0);
    // overlapping occurrences of the core: one more unit in front, the tail only behind the last one
    for _ in 0..rng.range(1, 3) {
        hay.extend(unit.iter());
    }
    hay.extend(core.iter());
    if rng.chance(3, 4) {
        hay.extend(tail.iter());
    }
    let k1 = rng.below(3);
    hay.extend(gen_text(rng, &[' ', 'q'], k1));
    if rng.chance(1, 5) {
        hay.push('\u{e9}');
    }
    normalize_needle(&mut needle, &cfg);
    Case {
        hay: Text::new(hay),
        needle: Text::new(needle),
        cfg,
        profile: "self-overlap",
    }
}

pub fn gen_near_miss(rng: &mut Rng) -> Case {
    let cfg = gen_cfg(rng, false);
    let plen = *rng.pick(&[0usize, 1, 2, 3, 7, 8, 15, 16, 17, 18, 24, 31, 32, 33, 40]);
    // (the punctuation whose bit 0x20 partner is another punctuation character is part of the alphabets)
    let mut needle: Vec<char> = gen_text(rng, &['1', '2', '0', '-', '.', '/', ' ', '_', ':', '`', '{', '~', '@', '['], plen);
    let letters = rng.range(if plen == 0 { 2 } else { 0 }, 14);
    needle.extend(gen_text(rng, &['a', 'b', 'x', 'A', 'Z', 'a', 'b', '`', '{', '|', '}', '~', '\u{7f}', '@', '[', '^', '_'], letters));
    if rng.chance(1, 3) {
        let k = rng.range(1, 4);
        needle.extend(gen_text(rng, &['3', '-', 'c'], k));
    }
    if needle.is_empty() {
        needle.push('1');
    }
    let k0 = rng.below(4);
    let mut hay: Vec<char> = gen_text(rng, &['q', ' ', '1', '-'], k0);
    for _ in 0..rng.range(1, 3) {
        let mut miss = needle.clone();
        let p = match rng.below(4) {
            0 => rng.below(miss.len()),
            1 => miss.len() - 1,
            // behind the first 16 characters, in front of the first letter
            _ => (16 + rng.below(plen.saturating_sub(16).max(1))).min(miss.len() - 1),
        };
        // a different character, or the one that differs only in the "case" bit
        let replacement = if miss[p].is_ascii() && rng.coin() { ((miss[p] as u8) ^ 0x20) as char } else { *rng.pick(&['7', '+', 'q', 'B']) };
        miss[p] = if miss[p] == replacement { '#' } else { replacement };
        hay.extend(miss);
        let k1 = rng.below(3);
        hay.extend(gen_text(rng, &[' ', '/', 'q'], k1));
    }
    if rng.coin() {
        hay.extend(needle.iter());
        let k2 = rng.below(3);
        hay.extend(gen_text(rng, &[' ', 'q'], k2));
    }
    if rng.chance(1, 4) {
        hay.push('\u{e9}');
    }
    normalize_needle(&mut needle, &cfg);
    Case {
        hay: Text::new(hay),
        needle: Text::new(needle),
        cfg,
        profile: "near-miss",
    }
}

/// characters whose kind (word / non-word / white space) differs from the kind of the character they normalize to, e.g. the
/// letter U+01C3 with the image `!`: code that derives a property of the haystack position from the needle character goes
/// wrong exactly there
fn class_changers() -> &'static [(char, char)] {
    static LIST: std::sync::OnceLock<Vec<(char, char)>> = std::sync::OnceLock::new();
    LIST.get_or_init(|| {
        let kind = |c: char| if c.is_alphanumeric() { 0 } else if c.is_whitespace() { 1 } else { 2 };
        (0x80u32..0x3000)
            .filter_map(char::from_u32)
            .filter_map(|c| {
                let img = nucleo_matcher::chars::normalize(c);
                (img != c && img.is_ascii() && kind(img) != kind(c)).then_some((c, img))
            })
            .collect()
    })
}

/// several occurrences of a short needle whose first character is such an image; the occurrences start with the image, with a
/// pre-image of another kind, or with a pre-image of the same kind, after different predecessors
pub fn gen_class_changer(rng: &mut Rng) -> Case {
    let mut cfg = gen_cfg(rng, false);
    if !rng.chance(1, 5) {
        cfg.normalize = true;
    }
    let list = class_changers();
    let (pre, img) = if list.is_empty() { ('\u{1c3}', '!') } else { *rng.pick(list) };
    let same_kind: Vec<char> = (0x80u32..0x250).filter_map(char::from_u32).filter(|&c| c != pre && nucleo_matcher::chars::normalize(c) == img).collect();
    let k = rng.below(4);
    let suffix = gen_text(rng, &['x', 'a', '1', 'X'], k);
    let mut needle = vec![img];
    needle.extend(suffix.iter());
    let mut hay: Vec<char> = Vec::new();
    for _ in 0..rng.range(2, 4) {
        match rng.below(7) {
            0 => {}
            1 => hay.push(' '),
            2 => hay.push('/'),
            3 => hay.push('q'),
            4 => hay.push('Q'),
            5 => hay.push('1'),
            _ => hay.push('-'),
        }
        hay.push(match rng.below(5) {
            0 | 1 => pre,
            2 if !same_kind.is_empty() => *rng.pick(&same_kind),
            _ => img,
        });
        hay.extend(suffix.iter());
        let f = rng.below(3);
        hay.extend(gen_text(rng, &['q', ' ', 'w'], f));
    }
    normalize_needle(&mut needle, &cfg);
    Case {
        hay: Text::new(hay),
        needle: Text::new(needle),
        cfg,
        profile: "class-changing-image",
    }
}

/// a contiguous match long enough to saturate the 16 bit score, then one gap of 1..40 characters right before the last
/// needle character(s): whatever happens to the score after saturation shows here
pub fn gen_saturated_tail(rng: &mut Rng) -> Case {
    let cfg = gen_cfg(rng, true);
    let body_len = rng.range(2530, 4200);
    let body: Vec<char> = match rng.below(3) {
        0 => vec!['a'; body_len],
        1 => (0..body_len).map(|i| if i % 7 == 6 { ' ' } else { 'a' }).collect(),
        _ => (0..body_len).map(|i| ['a', 'b', 'c'][i % 3]).collect(),
    };
    let gap = rng.range(1, 40);
    let filler = *rng.pick(&['x', 'y', '-']);
    let tail: Vec<char> = rng.pick(&["z", "zq", "Z", "/z", "1"]).chars().collect();
    let mut hay = body.clone();
    hay.extend(std::iter::repeat(filler).take(gap));
    hay.extend(tail.iter());
    if rng.coin() {
        hay.extend("xx".chars());
    }
    let mut needle = body;
    needle.extend(tail.iter());
    normalize_needle(&mut needle, &cfg);
    Case {
        hay: Text::new(hay),
        needle: Text::new(needle),
        cfg,
        profile: "saturated-tail",
    }
}

pub fn gen_case_for(idx: u64, rng: &mut Rng, pools: &Pools, props: &Props, long_only: bool) -> Case {
    if long_only {
        return if idx % 3 == 2 {
            gen_saturated_tail(rng)
        } else if idx % 12 == 1 {
            gen_long_gap(rng)
        } else {
            gen_big(rng, pools, true)
        };
    }
    let score_only = props.c03 && !props.c01 && !props.c02 && !props.c05 && !props.c10;
    let anchored_heavy = props.c05 && !props.c01;
    match idx % 64 {
        0 => gen_big(rng, pools, false),
        32 if idx % 128 == 32 => gen_sparse_big(rng, pools),
        32 if idx % 8192 == 96 => gen_long_gap(rng),
        1 if idx % 256 == 1 => gen_big(rng, pools, true),
        1 if idx % 256 == 129 => gen_saturated_tail(rng),
        2..=9 if !score_only => gen_placed(rng, pools),
        35 if anchored_heavy => gen_class_changer(rng),
        17 => gen_class_changer(rng),
        36..=38 if anchored_heavy => gen_near_miss(rng),
        39..=40 if anchored_heavy => gen_self_overlap(rng),
        19 => gen_self_overlap(rng),
        10..=35 if anchored_heavy => gen_anchored(rng, pools),
        18 => gen_near_miss(rng),
        10..=17 => gen_anchored(rng, pools),
        _ => gen_small(rng, pools, score_only),
    }
}

/// a long lived matcher is constructed with one configuration and gets others assigned in place later
pub fn initial_matcher(seed: u64, shard: u64, epoch: u64) -> Matcher {
    Matcher::new(RCfg::from_index((mix(&[seed, shard, epoch, 77]) % RCfg::COUNT as u64) as usize).real())
}

/// Texts containing U+000B (which the byte and the code point representation classify differently, so the reference model
/// and the cross-representation comparisons leave it out): within one representation the score-only and the indices
/// variant of every entry point still have to agree, and a match still reports one index per needle character.
fn vertical_tab_cases(opts: &MatchOpts, rep: &mut Report) {
    let mut matcher = initial_matcher(opts.seed, opts.shard, 9);
    let alphabet = ['a', 'b', ' ', '\u{b}', '\u{b}', '/', 'A', '\t'];
    for k in 0..6000u64 {
        let mut rng = Rng::new(mix(&[opts.seed, opts.shard, k, 0x0b]));
        let cfg = gen_cfg(&mut rng, false);
        let hl = rng.range(1, 9);
        let hay = gen_text(&mut rng, &alphabet, hl);
        let nl = rng.range(1, 4).min(hl);
        let mut needle: Vec<char> = if rng.coin() {
            let s = rng.below(hl - nl + 1);
            hay[s..s + nl].to_vec()
        } else {
            gen_text(&mut rng, &alphabet, nl)
        };
        normalize_needle(&mut needle, &cfg);
        let (ht, nt) = (Text::new(hay), Text::new(needle));
        matcher.config = cfg.real();
        for ascii_repr in [true, false] {
            for algo in ALGOS {
                rep.count("c03.vertical-tab-calls");
                let mut idx = Vec::new();
                let r = caught(|| (call(&mut matcher, algo, ht.view(ascii_repr), nt.view(ascii_repr), None), call(&mut matcher, algo, ht.view(ascii_repr), nt.view(ascii_repr), Some(&mut idx))));
                let bad = match &r {
                    Ok((a, b)) => a != b || (b.is_some() && idx.len() != nt.len()),
                    Err(_) => true,
                };
                if bad {
                    rep.violation(
                        "C03",
                        "score-variants-differ",
                        format!("vertical-tab|{}", algo.name()),
                        jobj! {"haystack" => show_chars(&ht.chars), "needle" => show_chars(&nt.chars), "config" => format!("{cfg:?}"), "held_as_bytes" => ascii_repr,
                               "result" => format!("{r:?}"), "indices" => idx.iter().map(|&x| x as u64).collect::<Vec<u64>>(),
                               "case_id" => format!("{}:{}:vt{}", opts.seed, opts.shard, k)},
                    );
                    if r.is_err() {
                        matcher = initial_matcher(opts.seed, opts.shard, 9);
                    }
                    return;
                }
            }
        }
    }
}

/// Haystacks and needles handed over as strings and converted by the library's own constructors (everything else in this suite
/// builds the two representations directly): ASCII texts with carriage returns and line feeds in every arrangement. The
/// anchored algorithms must give the result they give for the documented content of the converted text (CR LF is one
/// character, a line feed; a text with such a pair is held as code points, any other ASCII text as bytes).
fn converted_text_cases(opts: &MatchOpts, rep: &mut Report) {
    let mut matcher = initial_matcher(opts.seed, opts.shard, 10);
    let alphabet = ['a', 'b', '\r', '\n', '\r', '\n', ' ', 'c', '/'];
    let documented = |s: &[char]| -> Vec<char> {
        let mut out = Vec::new();
        let mut i = 0;
        while i < s.len() {
            if s[i] == '\r' && s.get(i + 1) == Some(&'\n') {
                out.push('\n');
                i += 2;
            } else {
                out.push(s[i]);
                i += 1;
            }
        }
        out
    };
    for k in 0..12000u64 {
        let mut rng = Rng::new(mix(&[opts.seed, opts.shard, k, 0x0d0a]));
        let cfg = gen_cfg(&mut rng, false);
        let hl = rng.range(1, 12);
        let hay_raw = gen_text(&mut rng, &alphabet, hl);
        let hay_doc = documented(&hay_raw);
        let nl = rng.range(1, 4).min(hay_doc.len());
        let s = match rng.below(3) {
            0 => 0,
            1 => hay_doc.len() - nl,
            _ => rng.below(hay_doc.len() - nl + 1),
        };
        // the needle is a piece of the documented content, written the way a user would write it (a line feed of the content may
        // be typed as CR LF)
        let needle_doc: Vec<char> = hay_doc[s..s + nl].to_vec();
        let needle_raw: Vec<char> = needle_doc.iter().flat_map(|&c| if c == '\n' && rng.coin() { vec!['\r', '\n'] } else { vec![c] }).collect();
        let needle_doc = documented(&needle_raw);
        let (hs, ns): (String, String) = (hay_raw.iter().collect(), needle_raw.iter().collect());
        let (mut hb, mut nb) = (Vec::new(), Vec::new());
        let hay_has_pair = hay_raw.windows(2).any(|w| w == ['\r', '\n']);
        let needle_has_pair = needle_raw.windows(2).any(|w| w == ['\r', '\n']);
        let (ht, nt) = (Text::new(hay_doc.clone()), Text::new(needle_doc.clone()));
        matcher.config = cfg.real();
        for algo in [Algo::Substring, Algo::Prefix, Algo::Postfix, Algo::Exact, Algo::Fuzzy, Algo::Greedy] {
            rep.count("c05.calls-on-converted-strings");
            let (mut i1, mut i2) = (Vec::new(), Vec::new());
            let r = caught(|| {
                let h = nucleo_matcher::Utf32Str::new(&hs, &mut hb);
                let n = nucleo_matcher::Utf32Str::new(&ns, &mut nb);
                let a = call(&mut matcher, algo, h, n, Some(&mut i1));
                let b = call(&mut matcher, algo, ht.view(!hay_has_pair), nt.view(!needle_has_pair), Some(&mut i2));
                (a, b)
            });
            let bad = match &r {
                Ok((a, b)) => a != b || i1 != i2,
                Err(_) => true,
            };
            if bad {
                rep.violation(
                    "C05",
                    "result-differs-for-a-haystack-converted-from-a-string",
                    format!("converted|{}", algo.name()),
                    jobj! {"haystack_string" => show_chars(&hay_raw), "needle_string" => show_chars(&needle_raw), "documented_content" => show_chars(&hay_doc),
                           "config" => format!("{cfg:?}"), "result (converted, built directly)" => format!("{r:?}"),
                           "indices_converted" => i1.iter().map(|&x| x as u64).collect::<Vec<u64>>(), "indices_built_directly" => i2.iter().map(|&x| x as u64).collect::<Vec<u64>>(),
                           "case_id" => format!("{}:{}:cv{}", opts.seed, opts.shard, k)},
                );
                if r.is_err() {
                    matcher = initial_matcher(opts.seed, opts.shard, 10);
                }
                return;
            }
        }
    }
}

/// One haystack of the largest documented length, 2^32 - 1 bytes (held as bytes; the matches sit at the very beginning so that
/// every entry point is done after a few vectorised scans): every entry point returns what the same text cut to 64 bytes gives.
fn max_length_haystack(opts: &MatchOpts, props: &Props, rep: &mut Report) {
    let n = u32::MAX as usize;
    // (a machine without 4 GiB to spare leaves the case out - the coverage requirement then reports the check as inconclusive -
    // instead of dying in the allocator)
    let mut bytes: Vec<u8> = Vec::new();
    if crate::m_layout::mem_available_gib() < 8 || bytes.try_reserve_exact(n).is_err() {
        rep.count("c01.max-length-haystack-skipped-for-lack-of-memory");
        return;
    }
    bytes.resize(n, b'x');
    bytes[0] = b'a';
    bytes[1] = b'b';
    bytes[3] = b'A';
    let mut matcher = initial_matcher(opts.seed, opts.shard, 11);
    for (ci, needle) in [(1usize, "ab"), (3, "ba")] {
        let cfg = RCfg::from_index(ci % RCfg::COUNT);
        matcher.config = cfg.real();
        let nt = Text::new(needle.chars().collect());
        for algo in ALGOS {
            rep.count("c01.max-length-haystack-calls");
            let (mut i1, mut i2) = (Vec::new(), Vec::new());
            let r = caught(|| {
                let long = call(&mut matcher, algo, nucleo_matcher::Utf32Str::Ascii(&bytes), nt.view(true), Some(&mut i1));
                let short = call(&mut matcher, algo, nucleo_matcher::Utf32Str::Ascii(&bytes[..64]), nt.view(true), Some(&mut i2));
                (long, short)
            });
            // postfix and exact look at the other end of the text; there only the decision and the witness are compared
            let anchored_at_end = matches!(algo, Algo::Postfix | Algo::Exact);
            let bad = match &r {
                Ok((a, b)) if anchored_at_end => a.is_some() != b.is_some(),
                Ok((a, b)) => a != b || i1 != i2,
                Err(_) => true,
            };
            if bad {
                let kind = if r.is_err() { "panic" } else { "result-differs-from-the-same-text-cut-short" };
                rep.violation(
                    if props.c01 { "C01" } else { "C10" },
                    kind,
                    format!("max-length|{}", algo.name()),
                    jobj! {"haystack" => "a b x A x x ... (4294967295 bytes)", "needle" => needle, "config" => format!("{cfg:?}"), "result (full length, first 64 bytes)" => format!("{r:?}"),
                           "case_id" => format!("{}:{}:maxlen", opts.seed, opts.shard)},
                );
                return;
            }
        }
    }
}

pub fn run(opts: &MatchOpts, props: &Props, pools: &Pools, rep: &mut Report) {
    if (props.c01 || props.c10) && opts.replay.is_none() && !opts.long_only && opts.shard == 11 && opts.cases >= 1000 {
        max_length_haystack(opts, props, rep);
    }
    if props.c03 && opts.replay.is_none() && !opts.long_only && opts.shard % 4 == 1 {
        vertical_tab_cases(opts, rep);
    }
    if props.c05 && opts.replay.is_none() && !opts.long_only && opts.shard % 4 == 2 {
        converted_text_cases(opts, rep);
    }
    let mut matcher = initial_matcher(opts.seed, opts.shard, 0);
    let range: Box<dyn Iterator<Item = u64>> = match opts.replay {
        // the cases of a block share the matcher state: replay the block up to the case
        Some(i) => Box::new(i - i % 16..i + 1),
        None => Box::new(0..opts.cases),
    };
    let mut believed: Option<RCfg> = None;
    for idx in range {
        if idx % 128 == 0 && rep.elapsed() > opts.time_limit {
            rep.note(format!("time limit reached after {idx} cases"));
            break;
        }
        let mut rng = Rng::new(mix(&[opts.seed, opts.shard, idx]));
        if idx % 4096 == 4095 {
            matcher = initial_matcher(opts.seed, opts.shard, idx / 4096 + 1);
            believed = None;
        }
        let mut case = gen_case_for(idx, &mut rng, pools, props, opts.long_only);
        // every other block of 8 cases shares one configuration (a caller that configures its matcher once)
        if (idx / 8) % 2 == 0 {
            let mut block = RCfg::from_index((mix(&[opts.seed, opts.shard, idx / 8, 5]) % RCfg::COUNT as u64) as usize);
            if case.profile == "anchored" {
                block.prefer_prefix = false;
            }
            case.cfg = block;
            let mut n = case.needle.chars.clone();
            normalize_needle(&mut n, &block);
            case.needle = Text::new(n);
        }
        if case.needle.chars.iter().any(|&c| ref_norm(c, &case.cfg) != c) {
            // the composed projection is not idempotent for a few characters; such a needle is
            // not "already normalized" and outside the properties
            rep.count("skipped.needle-not-a-fixed-point");
            continue;
        }
        rep.count("cases");
        rep.count(&format!("profile.{}", case.profile));
        let mut hsh = Hasher64::new();
        hsh.add_chars(&case.hay.chars);
        hsh.add_chars(&case.needle.chars);
        hsh.add(case.cfg.index() as u64);
        // non-trivial: non-empty needle that is not longer than the haystack
        if !case.needle.is_empty() && case.needle.len() <= case.hay.len() {
            rep.distinct(hsh.finish());
        }
        if rep.want_sample() && idx % 7 == 3 {
            rep.sample(case.short_json());
        }
        let mut ev = Eval {
            rep,
            props,
            matcher: &mut matcher,
            case_id: format!("{}:{}:{}", opts.seed, opts.shard, idx),
            attribute_to: None,
            believed: Some(&mut believed),
        };
        // representation combinations
        let h_reprs: &[bool] = if case.hay.ascii { &[true, false] } else { &[false] };
        let n_reprs: &[bool] = if case.needle.ascii { &[true, false] } else { &[false] };
        let big = case.hay.len() > 1000;
        for &hr in h_reprs {
            for &nr in n_reprs {
                if big && hr != nr && rng.coin() {
                    continue;
                }
                eval_case(&mut ev, &mut rng, &case, hr, nr);
            }
        }
    }
}
