use vmon::m_boxcar;
use vmon::m_layout;

// counts live heap allocations for the leak oracle of the layout mode
#[global_allocator]
static ALLOC: m_layout::CountingAlloc = m_layout::CountingAlloc;

use vmon::refm::install_quiet_panic_hook;
use vmon::report::{Args, Report};

fn main() {
    let args = Args::parse();
    if args.get("noop").is_some() {
        // used by `./check build miri` to compile the binary under the interpreter (an argument, not an
        // environment variable: cargo-miri replays the build-time environment at run time)
        return;
    }
    let out = args.str("out", "-");
    let mode = args.str("mode", "lin");
    install_quiet_panic_hook();
    let mut rep = Report::new(&format!("boxcar-{mode}"));
    let opts = m_boxcar::Opts {
        seed: args.u64("seed", 1),
        shard: args.u64("shard", 0),
        cases: args.u64("cases", 1000),
        time_limit: args.f64("time-limit", 60.0),
        replay: args.get("replay-case").and_then(|s| s.parse().ok()),
    };
    // a panic that escapes a monitor ends the run; it is reported with its message instead of a bare exit code
    let run = std::panic::catch_unwind(std::panic::AssertUnwindSafe(|| match mode.as_str() {
        "lin" => m_boxcar::run_lin(&opts, &mut rep),
        "stress" => m_boxcar::run_stress(&opts, &mut rep, args.u64("small", 0) != 0),
        "drop" => m_boxcar::run_drop(&opts, &mut rep, args.u64("small", 0) != 0),
        "layout" => m_layout::run_layout(&opts, &mut rep),
        "exhaust" => m_layout::run_exhaust(&opts, &mut rep),
        "race" => m_boxcar::run_race(
            &opts,
            &mut rep,
            args.u64("items", 40) as u32,
            args.u64("writers", 2) as usize,
            args.u64("readers", 3) as usize,
        ),
        other => {
            eprintln!("unknown mode {other}");
            std::process::exit(3)
        }
    }));
    if run.is_err() {
        let msg = vmon::refm::last_panic();
        let loc = msg.rsplit(" @ ").next().unwrap_or("").to_owned();
        if vmon::refm::in_repository(&loc) {
            let prop = match mode.as_str() {
                "drop" => "C11",
                "race" => "C09",
                _ => "C08",
            };
            rep.violation(prop, "panic-escaped-the-vector", format!("panic@{loc}"), vmon::jobj! {"message" => msg, "mode" => mode.clone()});
        } else {
            rep.inconclusive(format!("monitor panicked outside the repository code: {msg}"));
        }
    }
    if let Some(p) = args.get("as-prop") {
        rep.relabel(p);
    }
    rep.write(&out);
    // let pool threads of the last history finish terminating before exit-time leak checks run
    std::thread::sleep(std::time::Duration::from_millis(60));
}
