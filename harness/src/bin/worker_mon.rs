use vmon::m_directed;
use vmon::m_worker;
use vmon::refm::install_quiet_panic_hook;
use vmon::report::{Args, Report};

fn main() {
    let args = Args::parse();
    if args.get("noop").is_some() {
        // used by `./check build miri` to compile the binary under the interpreter (an argument, not an
        // environment variable: cargo-miri replays the build-time environment at run time)
        return;
    }
    let out = args.str("out", "-");
    let mode = args.str("mode", "random");
    if args.u64("quiet-panics", 1) != 0 {
        install_quiet_panic_hook();
    }
    let props_s = args.str("props", "C06,C07,C11,C12,C19,C20");
    let props: Vec<&str> = props_s.split(',').collect();
    let mut rep = Report::new(&format!("worker-{mode}"));
    let opts = m_worker::Opts {
        seed: args.u64("seed", 1),
        shard: args.u64("shard", 0),
        cases: args.u64("cases", 100),
        time_limit: args.f64("time-limit", 60.0),
        replay: args.get("replay-case").and_then(|s| s.parse().ok()),
        small: args.u64("small", 0) != 0,
        delays: args.u64("delays", 1) != 0,
    };
    // a panic of the repository code on the calling (ticking) thread ends the run; it is reported with its message
    let run = std::panic::catch_unwind(std::panic::AssertUnwindSafe(|| match mode.as_str() {
        "random" => m_worker::run_random(&opts, &mut rep, &props),
        "directed" => m_directed::run_directed(&opts, &mut rep, &props),
        "c13" => m_directed::run_c13(&opts, &mut rep),
        "c20" => m_directed::run_c20(&opts, &mut rep),
        "race" => m_directed::run_race(
            &opts,
            &mut rep,
            args.u64("items", 300) as u32,
            args.u64("injectors", 2) as usize,
            args.u64("pool", 2) as usize,
        ),
        other => {
            eprintln!("unknown mode {other}");
            std::process::exit(3)
        }
    }));
    if run.is_err() {
        let msg = vmon::refm::last_panic();
        let loc = msg.rsplit(" @ ").next().unwrap_or("").to_owned();
        let prop = match mode.as_str() {
            "c13" => "C13",
            "c20" => "C20",
            "race" => "C09",
            _ => props[0],
        };
        if vmon::refm::in_repository(&loc) {
            rep.violation(
                prop,
                "panic-on-the-calling-thread",
                format!("panic@{loc}"),
                vmon::jobj! {"message" => msg, "mode" => mode.clone(), "note" => "the history that was running is the last one started by this shard (seed, shard in the command line)"},
            );
        } else {
            rep.inconclusive(format!("monitor panicked outside the repository code: {msg}"));
        }
    }
    rep.write(&out);
    // let pool threads of the last history finish terminating before exit-time leak checks run
    std::thread::sleep(std::time::Duration::from_millis(60));
}
