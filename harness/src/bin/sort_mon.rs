use vmon::m_sort;
use vmon::refm::install_quiet_panic_hook;
use vmon::report::{Args, Report};

fn main() {
    let args = Args::parse();
    if args.get("noop").is_some() {
        // used by `./check build miri` to compile the binary under the interpreter (an argument, not an
        // environment variable: cargo-miri replays the build-time environment at run time)
        return;
    }
    let out = args.str("out", "-");
    if args.u64("quiet-panics", 1) != 0 {
        install_quiet_panic_hook();
    }
    let mut rep = Report::new("sort");
    let opts = m_sort::Opts {
        seed: args.u64("seed", 1),
        shard: args.u64("shard", 0),
        cases: args.u64("cases", 1000),
        time_limit: args.f64("time-limit", 60.0),
        max_len: args.u64("max-len", 500_000) as usize,
        replay: args.get("replay-case").and_then(|s| s.parse().ok()),
        small: args.u64("small", 0) != 0,
        crumb: args.get("crumb").map(|s| s.to_owned()),
    };
    m_sort::run(&opts, &mut rep);
    rep.write(&out);
}
