use vmon::m_match;
use vmon::refm::install_quiet_panic_hook;
use vmon::report::{Args, Report};
use vmon::ugen::Pools;

fn main() {
    let args = Args::parse();
    if args.get("noop").is_some() {
        // used by `./check build miri` to compile the binary under the interpreter (an argument, not an
        // environment variable: cargo-miri replays the build-time environment at run time)
        return;
    }
    let suite = args.str("suite", "match");
    let out = args.str("out", "-");
    let seed = args.u64("seed", 1);
    let shard = args.u64("shard", 0);
    let cases = args.u64("cases", 100_000);
    let time_limit = args.f64("time-limit", 60.0);
    let replay = args.get("replay-case").and_then(|s| s.parse().ok());
    if args.u64("quiet-panics", 1) != 0 {
        install_quiet_panic_hook();
    }
    let mut rep = Report::new(&suite);
    let lazy_pools = std::cell::OnceCell::new();
    let pools_fn = || lazy_pools.get_or_init(Pools::new);
    match suite.as_str() {
        "match" => {
            let props = m_match::Props::parse(&args.str("props", "C01,C02,C03,C05,C10"));
            let opts = m_match::MatchOpts {
                seed,
                shard,
                cases,
                time_limit,
                long_only: args.u64("long-only", 0) != 0,
                replay,
            };
            if props.c10 {
                vmon::m_total::install_slab_monitor();
            }
            m_match::run(&opts, &props, pools_fn(), &mut rep);
            if props.c10 {
                vmon::m_total::collect_slab_monitor(&mut rep);
            }
        }
        "quality" => {
            let opts = vmon::m_quality::Opts { seed, shard, cases, time_limit, replay };
            vmon::m_quality::run(&opts, pools_fn(), &mut rep);
        }
        "total" => {
            let opts = vmon::m_total::Opts { seed, shard, cases, time_limit, replay };
            vmon::m_total::run(&opts, pools_fn(), &mut rep);
        }
        "grid" => {
            let opts = vmon::m_grid::Opts {
                seed,
                shard,
                shards: args.u64("shards", 1),
                cases,
                time_limit,
                max_cells: args.u64("max-cells", 10_000_000) as usize,
            };
            vmon::m_grid::run(&opts, &mut rep);
        }
        "grammar" => {
            let opts = vmon::m_grammar::Opts { seed, shard, cases, time_limit, replay };
            vmon::m_grammar::run(&opts, &mut rep);
        }
        "compose" => {
            let opts = vmon::m_compose::Opts { seed, shard, cases, time_limit, replay };
            vmon::m_compose::run(&opts, &mut rep);
        }
        "strings" => {
            let opts = vmon::m_strings::Opts { seed, shard, cases, time_limit, replay };
            vmon::m_strings::run(&opts, &mut rep);
        }
        "chars" => {
            let opts = vmon::m_chars::Opts {
                seed,
                shard,
                shards: args.u64("shards", 1),
                time_limit,
                data_dir: args.str("data", "/verif/data"),
                sample_permille: args.u64("sample-permille", 10),
                replay,
            };
            vmon::m_chars::run(&opts, &mut rep);
        }
        other => {
            eprintln!("unknown suite {other}");
            std::process::exit(3);
        }
    }
    rep.write(&out);
}
