//! Controlled scheduler: real threads that block at every verif yield point; a seeded
//! scheduler releases exactly one at a time, so a run *is* an interleaving at the granularity
//! of the instrumented atomic operations and is replayable from its seed.
use std::cell::RefCell;
use std::sync::atomic::{AtomicU64, AtomicU8, AtomicUsize, Ordering};
use std::sync::{Arc, Mutex};
use std::thread::Thread;

use nucleo::verif::Point;

use crate::rng::{Hasher64, Rng};

const NOT_STARTED: u8 = 0;
const RUNNING: u8 = 1;
const WAITING: u8 = 2;
const FINISHED: u8 = 3;
const NONE: usize = usize::MAX;

#[derive(Clone, Copy, Debug, PartialEq, Eq)]
pub enum Policy {
    Uniform,
    /// PCT style: random priorities, `d` priority change points
    Pct(u32),
    /// keep running the same thread with probability 7/8 (long runs, few switches)
    Sticky,
}

pub struct Sched {
    status: Vec<AtomicU8>,
    code: Vec<AtomicU8>,
    granted: AtomicUsize,
    handles: Mutex<Vec<Option<Thread>>>,
    scheduler: Mutex<Option<Thread>>,
}

/// pseudo points used by the harness itself (values above every `Point`)
pub const P_START: u8 = 200;
pub const P_OP_BEGIN: u8 = 201;
pub const P_OP_END: u8 = 202;
pub const P_USER: u8 = 203;

thread_local! {
    static CTRL: RefCell<Option<(usize, Arc<Sched>)>> = const { RefCell::new(None) };
}

/// global logical clock for event stamps (call / return events of client operations)
pub static CLOCK: AtomicU64 = AtomicU64::new(0);

pub fn stamp() -> u64 {
    CLOCK.fetch_add(1, Ordering::SeqCst)
}

/// the function installed with `nucleo::verif::set_hook` for controlled runs
pub fn sched_hook(p: Point) {
    yield_code(p as u8);
}

/// yield point for the harness' own operations
pub fn yield_code(code: u8) {
    let y = CO_YIELDER.with(|y| y.get());
    if !y.is_null() {
        // a logical thread run as a coroutine: hand control back to the scheduler
        unsafe { (*y).suspend(code) };
        return;
    }
    let ctrl = CTRL.with(|c| c.borrow().clone());
    if let Some((id, s)) = ctrl {
        s.yield_at(id, code);
    }
}

thread_local! {
    static CO_YIELDER: std::cell::Cell<*const corosensei::Yielder<(), u8>> = const { std::cell::Cell::new(std::ptr::null()) };
}

/// Runs `bodies` as logical threads (stackful coroutines on the calling OS thread) under one
/// schedule: the same contract as [`run_controlled`] without any OS level context switches.
/// Only usable when the bodies never block on each other outside the yield points.
pub fn run_coroutines<'a>(
    bodies: Vec<Box<dyn FnOnce() + 'a>>,
    rng: &mut Rng,
    policy: Policy,
    est_len: u64,
) -> (u64, u64, Vec<(u8, u8)>) {
    use corosensei::stack::DefaultStack;
    use corosensei::{Coroutine, CoroutineResult};
    let n = bodies.len();
    let slots: Vec<std::cell::Cell<*const corosensei::Yielder<(), u8>>> = (0..n).map(|_| std::cell::Cell::new(std::ptr::null())).collect();
    let slots_ref = &slots;
    let mut cos: Vec<Option<Coroutine<(), u8, (), DefaultStack>>> = Vec::with_capacity(n);
    for (id, body) in bodies.into_iter().enumerate() {
        let stack = DefaultStack::new(512 * 1024).expect("coroutine stack");
        // safety of the lifetime erasure: every coroutine is run to completion before this function returns
        let body: Box<dyn FnOnce() + 'static> = unsafe { std::mem::transmute::<Box<dyn FnOnce() + 'a>, Box<dyn FnOnce() + 'static>>(body) };
        let slot_addr = &slots_ref[id] as *const std::cell::Cell<*const corosensei::Yielder<(), u8>> as usize;
        cos.push(Some(Coroutine::with_stack(stack, move |yielder: &corosensei::Yielder<(), u8>, _input: ()| {
            let slot = unsafe { &*(slot_addr as *const std::cell::Cell<*const corosensei::Yielder<(), u8>>) };
            slot.set(yielder as *const _);
            CO_YIELDER.with(|y| y.set(yielder as *const _));
            body();
        })));
    }
    // per logical thread: the yield code it is waiting at (None = finished)
    let mut waiting: Vec<Option<u8>> = vec![Some(P_START); n];
    let mut prio: Vec<u32> = (0..n as u32).map(|i| i + 1000).collect();
    rng.shuffle(&mut prio);
    let mut change_points: Vec<u64> = Vec::new();
    if let Policy::Pct(d) = policy {
        for _ in 0..d {
            change_points.push(rng.below(est_len.max(1) as usize) as u64);
        }
    }
    let mut low = 999u32;
    let mut steps = 0u64;
    let mut trace_hash = Hasher64::new();
    let mut trace: Vec<(u8, u8)> = Vec::new();
    let mut last = NONE;
    loop {
        let runnable: Vec<usize> = (0..n).filter(|&i| waiting[i].is_some()).collect();
        if runnable.is_empty() {
            break;
        }
        let pick = match policy {
            Policy::Uniform => *rng.pick(&runnable),
            Policy::Sticky => {
                if runnable.contains(&last) && rng.chance(7, 8) {
                    last
                } else {
                    *rng.pick(&runnable)
                }
            }
            Policy::Pct(_) => {
                if change_points.contains(&steps) && last < n {
                    prio[last] = low;
                    low = low.saturating_sub(1);
                }
                *runnable.iter().max_by_key(|&&i| prio[i]).unwrap()
            }
        };
        let code = waiting[pick].unwrap();
        steps += 1;
        trace_hash.add(((pick as u64) << 8) | code as u64);
        if trace.len() < 4000 {
            trace.push((pick as u8, code));
        }
        last = pick;
        CO_YIELDER.with(|y| y.set(slots[pick].get()));
        let res = cos[pick].as_mut().unwrap().resume(());
        CO_YIELDER.with(|y| y.set(std::ptr::null()));
        match res {
            CoroutineResult::Yield(code) => waiting[pick] = Some(code),
            CoroutineResult::Return(()) => {
                waiting[pick] = None;
                cos[pick] = None;
            }
        }
    }
    (steps, trace_hash.finish(), trace)
}

pub fn is_controlled() -> bool {
    CTRL.with(|c| c.borrow().is_some())
}

fn backoff(round: &mut u32) {
    *round += 1;
    if *round < 3000 {
        std::hint::spin_loop();
    } else if *round < 3100 {
        std::thread::yield_now();
    } else {
        std::thread::park_timeout(std::time::Duration::from_micros(200));
    }
}

impl Sched {
    pub fn new(n: usize) -> Arc<Sched> {
        Arc::new(Sched {
            status: (0..n).map(|_| AtomicU8::new(NOT_STARTED)).collect(),
            code: (0..n).map(|_| AtomicU8::new(0)).collect(),
            granted: AtomicUsize::new(NONE),
            handles: Mutex::new(vec![None; n]),
            scheduler: Mutex::new(None),
        })
    }

    fn wake_scheduler(&self) {
        if let Some(t) = self.scheduler.lock().unwrap().as_ref() {
            t.unpark();
        }
    }

    fn yield_at(&self, id: usize, code: u8) {
        self.code[id].store(code, Ordering::Relaxed);
        self.status[id].store(WAITING, Ordering::SeqCst);
        self.wake_scheduler();
        let mut round = 0;
        while self.granted.load(Ordering::SeqCst) != id {
            backoff(&mut round);
        }
        self.status[id].store(RUNNING, Ordering::SeqCst);
        self.granted.store(NONE, Ordering::SeqCst);
    }

    /// to be called first thing on a controlled thread
    pub fn enter(self: &Arc<Self>, id: usize) {
        CTRL.with(|c| *c.borrow_mut() = Some((id, self.clone())));
        self.handles.lock().unwrap()[id] = Some(std::thread::current());
        self.yield_at(id, P_START);
    }

    /// to be called last thing on a controlled thread (also on unwinding)
    pub fn leave(&self, id: usize) {
        CTRL.with(|c| *c.borrow_mut() = None);
        self.status[id].store(FINISHED, Ordering::SeqCst);
        self.wake_scheduler();
    }

    /// scheduling loop; returns (steps, trace hash, trace (capped))
    pub fn run(&self, rng: &mut Rng, policy: Policy, est_len: u64) -> (u64, u64, Vec<(u8, u8)>) {
        *self.scheduler.lock().unwrap() = Some(std::thread::current());
        let n = self.status.len();
        let mut prio: Vec<u32> = (0..n as u32).map(|i| i + 1000).collect();
        rng.shuffle(&mut prio);
        let mut change_points: Vec<u64> = Vec::new();
        if let Policy::Pct(d) = policy {
            for _ in 0..d {
                change_points.push(rng.below(est_len.max(1) as usize) as u64);
            }
        }
        let mut low = 999u32;
        let mut steps = 0u64;
        let mut trace_hash = Hasher64::new();
        let mut trace: Vec<(u8, u8)> = Vec::new();
        let mut last = NONE;
        loop {
            // wait until nobody runs
            let mut round = 0;
            loop {
                let quiet = self.granted.load(Ordering::SeqCst) == NONE
                    && self.status.iter().all(|s| {
                        let s = s.load(Ordering::SeqCst);
                        s == WAITING || s == FINISHED
                    });
                // re-check the grant: a thread stores RUNNING before it clears the grant
                if quiet && self.granted.load(Ordering::SeqCst) == NONE {
                    break;
                }
                backoff(&mut round);
            }
            let waiting: Vec<usize> = (0..n).filter(|&i| self.status[i].load(Ordering::SeqCst) == WAITING).collect();
            if waiting.is_empty() {
                break;
            }
            let pick = match policy {
                Policy::Uniform => *rng.pick(&waiting),
                Policy::Sticky => {
                    if waiting.contains(&last) && rng.chance(7, 8) {
                        last
                    } else {
                        *rng.pick(&waiting)
                    }
                }
                Policy::Pct(_) => {
                    if change_points.contains(&steps) && last < n {
                        prio[last] = low;
                        low = low.saturating_sub(1);
                    }
                    *waiting.iter().max_by_key(|&&i| prio[i]).unwrap()
                }
            };
            let code = self.code[pick].load(Ordering::Relaxed);
            steps += 1;
            trace_hash.add(((pick as u64) << 8) | code as u64);
            if trace.len() < 4000 {
                trace.push((pick as u8, code));
            }
            last = pick;
            self.granted.store(pick, Ordering::SeqCst);
            if let Some(t) = self.handles.lock().unwrap()[pick].as_ref() {
                t.unpark();
            }
        }
        *self.scheduler.lock().unwrap() = None;
        (steps, trace_hash.finish(), trace)
    }
}

/// runs `bodies` as controlled threads under one schedule
pub fn run_controlled<'a>(
    bodies: Vec<Box<dyn FnOnce() + Send + 'a>>,
    rng: &mut Rng,
    policy: Policy,
    est_len: u64,
) -> (u64, u64, Vec<(u8, u8)>) {
    let n = bodies.len();
    let sched = Sched::new(n);
    std::thread::scope(|scope| {
        for (id, body) in bodies.into_iter().enumerate() {
            let sched = sched.clone();
            scope.spawn(move || {
                struct Leave(Arc<Sched>, usize);
                impl Drop for Leave {
                    fn drop(&mut self) {
                        self.0.leave(self.1)
                    }
                }
                sched.enter(id);
                let _leave = Leave(sched.clone(), id);
                body();
            });
        }
        sched.run(rng, policy, est_len)
    })
}
