//! placeholder (controlled scheduler lives here)
