//! C10: totality (no panic / overflow), slab view extents, history independence.
use std::collections::HashSet;
use std::sync::atomic::{AtomicU64, Ordering};
use std::sync::Mutex;

use nucleo_matcher::verif::{set_slab_hook, SlabReport};
use nucleo_matcher::Matcher;

use crate::jobj;
use crate::json::J;
use crate::m_match::{self, Case};
use crate::refm::*;
use crate::report::Report;
use crate::rng::{mix, Hasher64, Rng};
use crate::ugen::*;

static SLAB_REPORTS: AtomicU64 = AtomicU64::new(0);
static SLAB_BAD: Mutex<Vec<String>> = Mutex::new(Vec::new());
static SLAB_SHAPES: Mutex<Option<HashSet<(usize, usize, usize)>>> = Mutex::new(None);

fn slab_hook(r: &SlabReport) {
    SLAB_REPORTS.fetch_add(1, Ordering::Relaxed);
    let mut problem = None;
    let names = ["haystack", "bonus", "row_offs", "current_row", "matrix_cells"];
    for (i, &(off, len)) in r.views.iter().enumerate() {
        if off.checked_add(len).map_or(true, |end| end > r.slab_size) {
            problem = Some(format!(
                "view {} [{off}, {off}+{len}) extends beyond the slab of {} bytes",
                names[i], r.slab_size
            ));
        }
    }
    let mut sorted: Vec<(usize, usize, usize)> = r
        .views
        .iter()
        .enumerate()
        .filter(|(_, v)| v.1 > 0)
        .map(|(i, v)| (v.0, v.1, i))
        .collect();
    sorted.sort();
    for w in sorted.windows(2) {
        if w[0].0 + w[0].1 > w[1].0 {
            problem = Some(format!("views {} and {} overlap", names[w[0].2], names[w[1].2]));
        }
    }
    if let Some(p) = problem {
        let mut bad = SLAB_BAD.lock().unwrap();
        if bad.len() < 20 {
            bad.push(format!(
                "{p} (haystack window {} x needle {} char_size {})",
                r.haystack_len, r.needle_len, r.char_size
            ));
        }
    }
    let mut shapes = SLAB_SHAPES.lock().unwrap();
    let shapes = shapes.get_or_insert_with(HashSet::new);
    if shapes.len() < 2_000_000 {
        shapes.insert((r.haystack_len, r.needle_len, r.char_size));
    }
}

pub fn install_slab_monitor() {
    set_slab_hook(Some(slab_hook));
}

/// moves what the slab monitor saw into the report
pub fn collect_slab_monitor(rep: &mut Report) {
    rep.add("slab.allocs-checked", SLAB_REPORTS.load(Ordering::Relaxed));
    let shapes = SLAB_SHAPES.lock().unwrap();
    rep.add(
        "slab.distinct-shapes",
        shapes.as_ref().map_or(0, |s| s.len()) as u64,
    );
    for b in SLAB_BAD.lock().unwrap().iter() {
        let class: String = b
            .split(" (")
            .next()
            .unwrap_or("")
            .chars()
            .filter(|c| !c.is_ascii_digit())
            .collect();
        rep.violation("C10", "slab-view-out-of-bounds", class, jobj! {"report" => b.clone()});
    }
}

pub struct Opts {
    pub seed: u64,
    pub shard: u64,
    pub cases: u64,
    pub time_limit: f64,
    pub replay: Option<u64>,
}

/// match start far beyond column 21846 with prefix preference, very long haystacks
fn gen_far(rng: &mut Rng) -> Case {
    let mut cfg = gen_cfg(rng, true);
    cfg.prefer_prefix = rng.chance(3, 4);
    let n = *rng.pick(&[21_840usize, 21_846, 21_847, 21_850, 30_000, 65_530, 65_536, 70_000, 150_000, 300_000]);
    let filler = if rng.coin() { 'x' } else { ' ' };
    let mut hay: Vec<char> = vec![filler; n];
    let tail: Vec<char> = match rng.below(3) {
        0 => "ab".chars().collect(),
        1 => "a-b c".chars().collect(),
        _ => "aab/ab".chars().collect(),
    };
    hay.extend(tail.iter());
    if rng.chance(1, 3) {
        hay.push('\u{e9}');
    }
    let needle: Vec<char> = match rng.below(4) {
        0 => vec!['a'],
        1 => vec!['a', 'b'],
        2 => vec!['b'],
        _ => tail.clone(),
    };
    let mut needle = needle;
    normalize_needle(&mut needle, &cfg);
    Case {
        hay: Text::new(hay),
        needle: Text::new(needle),
        cfg,
        profile: "far-start",
    }
}

fn gen_total_case(idx: u64, rng: &mut Rng, pools: &Pools) -> Case {
    let mut rng = rng;
    let rng = &mut rng;
    match idx % 16 {
        0 => m_match::gen_big(rng, pools, false),
        1 if idx % 64 == 1 => m_match::gen_big(rng, pools, true),
        2 if idx % 128 == 2 => gen_far(rng),
        3 | 4 => m_match::gen_anchored(rng, pools),
        5 => m_match::gen_placed(rng, pools),
        6 | 7 => {
            // mid size: exercises the matrix path with many different shapes
            let cfg = gen_cfg(rng, true);
            let alphabet = gen_alphabet(rng, pools, Profile::ScoreAscii);
            let hl = rng.range(30, 900);
            let hay = gen_text(rng, &alphabet, hl);
            let (mut needle, _) = gen_needle(rng, &hay, &alphabet, &cfg, 90);
            normalize_needle(&mut needle, &cfg);
            Case {
                hay: Text::new(hay),
                needle: Text::new(needle),
                cfg,
                profile: "mid",
            }
        }
        _ => m_match::gen_small(rng, pools, false),
    }
}

/// 65 535 / 65 536 / 65 537 / 70 000 characters matched as one contiguous run (counters of adjacent matches, offsets,
/// saturated scores): exact, prefix, postfix, substring and greedy / fuzzy through the contiguous shortcut
fn giant_contiguous(rep: &mut Report) {
    for n in [65_535usize, 65_536, 65_537, 70_000] {
        for unicode in [false, true] {
            let body: Vec<char> = (0..n).map(|i| if unicode && i == 7 { '\u{4e2d}' } else { ['a', 'b'][i % 2] }).collect();
            let mut hay = vec!['x', ' '];
            hay.extend(body.iter());
            hay.extend(" y".chars());
            let (ht, exact, nt) = (Text::new(hay), Text::new(body.clone()), Text::new(body));
            let mut m = Matcher::default();
            for (algo, h) in [(Algo::Exact, &exact), (Algo::Prefix, &exact), (Algo::Postfix, &exact), (Algo::Substring, &ht), (Algo::Greedy, &ht), (Algo::Fuzzy, &ht)] {
                rep.count("c10.giant-contiguous-matches");
                let mut idx = Vec::new();
                let r = caught(|| (call(&mut m, algo, h.view(!unicode), nt.view(!unicode), None), call(&mut m, algo, h.view(!unicode), nt.view(!unicode), Some(&mut idx))));
                match r {
                    Ok((Some(a), Some(b))) if a == b && idx.len() == n => (),
                    Ok(other) => rep.violation(
                        "C10",
                        "giant-contiguous-match-wrong",
                        algo.name().into(),
                        jobj! {"problem" => format!("{} characters matched contiguously through {}: results {:?}, {} indices", n, algo.name(), other, idx.len())},
                    ),
                    Err(e) => {
                        rep.violation("C10", "panic", format!("panic@{}", e.rsplit(" @ ").next().unwrap_or("")), jobj! {"message" => e, "needle_chars" => n, "algorithm" => algo.name()});
                        m = Matcher::default();
                    }
                }
            }
        }
    }
}

/// A window that passes the cell limit but whose layout does not fit the scratch slab (so the call falls back to the greedy
/// algorithm), then - on the same matcher - longer windows with a two character needle that do fit and on which the optimal
/// and the greedy algorithm disagree: the second call must give what a fresh matcher gives.
fn rejected_then_accepted(opts: &Opts, rep: &mut Report) {
    let mut rng = Rng::new(mix(&[opts.seed, opts.shard, 0x5ab]));
    let mut veteran = m_match::initial_matcher(opts.seed, opts.shard, 12);
    for n1 in [5usize, 6, 7, 8, 9, 10, 12, 16, 24] {
        for wide in [false, true] {
            let cfg = RCfg::from_index(rng.below(RCfg::COUNT));
            veteran.config = cfg.real();
            // (long enough not to fit with n1 columns, short enough that a two column window of the same length does)
            let h1 = (102_400 / n1).min(if wide { 8300 } else { 10_400 }) - rng.below(40);
            let mut hay: Vec<char> = vec!['a'];
            hay.extend(std::iter::repeat(if wide { '\u{4e2d}' } else { 'x' }).take(h1 - n1));
            hay.extend(std::iter::repeat('b').take(n1 - 1));
            let mut needle = vec!['a'];
            needle.extend(std::iter::repeat('b').take(n1 - 1));
            let (ht, nt) = (Text::new(hay), Text::new(needle));
            let _ = caught(|| call(&mut veteran, Algo::Fuzzy, ht.view(!wide), nt.view(true), None));
            for h2 in [h1, h1 + 1 + rng.below(100), if wide { 8800 } else { 10_900 }] {
                // `xaxb` at the front (what the greedy scan takes, 29 points), ` ab` at the very end (what the optimal algorithm
                // finds, 62 points)
                let mut hay: Vec<char> = "xaxb".chars().collect();
                hay.extend(std::iter::repeat(if wide { '\u{4e2d}' } else { 'x' }).take(h2 - 7));
                hay.extend(" ab".chars());
                let (ht, nt) = (Text::new(hay), Text::new(vec!['a', 'b']));
                let mut fresh = Matcher::new(cfg.real());
                rep.count("c10.accepted-after-a-rejected-window");
                let (mut i1, mut i2) = (Vec::new(), Vec::new());
                let r = caught(|| {
                    let a = call(&mut veteran, Algo::Fuzzy, ht.view(!wide), nt.view(true), Some(&mut i1));
                    let b = call(&mut fresh, Algo::Fuzzy, ht.view(!wide), nt.view(true), Some(&mut i2));
                    (a, b)
                });
                match r {
                    Ok((a, b)) if a == b && i1 == i2 => (),
                    Ok((a, b)) => {
                        rep.violation(
                            "C10",
                            "history-dependent-result",
                            "fuzzy_indices after a window that did not fit".into(),
                            jobj! {"problem" => format!("window of {h2} characters (wide: {wide}), needle \"ab\": the used matcher returns {a:?} {i1:?}, a fresh matcher {b:?} {i2:?}; the call before was a window of {h1} x {n1} that does not fit the slab"),
                                   "config" => format!("{cfg:?}"), "case_id" => format!("{}:{}:rta", opts.seed, opts.shard)},
                        );
                        return;
                    }
                    Err(e) => {
                        rep.violation("C10", "panic", format!("panic@{}", e.rsplit(" @ ").next().unwrap_or("")), jobj! {"message" => e, "window" => h2, "wide" => wide});
                        return;
                    }
                }
            }
        }
    }
}

fn all_calls(m: &mut Matcher, case: &Case, hr: bool, nr: bool) -> Result<Vec<(Option<u16>, Vec<u32>)>, String> {
    let h = case.hay.view(hr);
    let n = case.needle.view(nr);
    let mut out = Vec::with_capacity(12);
    for algo in ALGOS {
        let r = caught(|| call(m, algo, h, n, None)).map_err(|e| format!("{}: {e}", algo.name()))?;
        out.push((r, Vec::new()));
        let mut idx = Vec::new();
        let r = caught(|| call(m, algo, h, n, Some(&mut idx))).map_err(|e| format!("{}: {e}", algo.name()))?;
        out.push((r, idx));
    }
    Ok(out)
}

/// For needle lengths n (spread over the shards) and both character widths: the largest window length for which the
/// matcher still takes its matrix from the scratch slab is found by bisection (the slab hook fires or not), then every
/// window length around that frontier is run with the view-extent monitor watching. Sizes exactly at the "does it fit"
/// decision are where an extent computed differently from the layout would show.
fn frontier_sweep(opts: &Opts, rep: &mut Report) {
    let mut m = Matcher::default();
    let mut bad: Vec<String> = Vec::new();
    let mut run = |m: &mut Matcher, n: usize, h: usize, wide: bool| -> bool {
        let mut hay: Vec<char> = Vec::with_capacity(h);
        hay.push('a');
        hay.extend(std::iter::repeat('x').take(h - n));
        hay.extend(std::iter::repeat('b').take(n - 1));
        let mut needle = vec!['a'];
        needle.extend(std::iter::repeat('b').take(n - 1));
        let (ht, nt) = (Text::new(hay), Text::new(needle));
        let before = SLAB_REPORTS.load(Ordering::Relaxed);
        let mut idx = Vec::new();
        let r = caught(|| {
            let with_indices = m.fuzzy_indices(ht.view(!wide), nt.view(!wide), &mut idx);
            (with_indices, m.fuzzy_match(ht.view(!wide), nt.view(!wide)))
        });
        let used_matrix = SLAB_REPORTS.load(Ordering::Relaxed) > before;
        // on both sides of the dispatch decision the answer is the same kind of answer: a match (the needle is a
        // subsequence by construction), one valid index per needle character, the same score from both variants
        let witness_ok = idx.len() == n && idx.windows(2).all(|w| w[0] < w[1]) && idx.iter().zip(nt.chars.iter()).all(|(&i, &c)| ht.chars.get(i as usize) == Some(&c));
        match r {
            Ok((Some(a), Some(b))) if a == b && witness_ok => (),
            Ok(other) => bad.push(format!("needle {n} window {h} wide={wide} matrix={used_matrix}: fuzzy_indices / fuzzy_match returned {other:?}, indices valid: {witness_ok}")),
            Err(e) => {
                bad.push(format!("needle {n} window {h} wide={wide}: {e}"));
                *m = Matcher::default();
            }
        }
        used_matrix
    };
    let mut frontiers = 0u64;
    for wide in [false, true] {
        let mut n = 2 + opts.shard as usize % 16;
        while n <= 2048 {
            if rep.elapsed() > opts.time_limit / 2.0 {
                rep.note("frontier sweep stopped at half of the time limit".to_string());
                return;
            }
            // bisection: lo fits (or nothing fits), hi does not
            if run(&mut m, n, n + 1, wide) {
                let (mut lo, mut hi) = (n + 1, 65_600usize);
                while hi - lo > 1 {
                    let mid = (lo + hi) / 2;
                    if run(&mut m, n, mid, wide) {
                        lo = mid
                    } else {
                        hi = mid
                    }
                }
                frontiers += 1;
                for h in lo.saturating_sub(3).max(n + 1)..=lo + 4 {
                    run(&mut m, n, h, wide);
                    rep.count("c10.window-lengths-run-at-the-slab-frontier");
                }
            }
            n += 16;
        }
    }
    rep.add("c10.slab-frontiers-located", frontiers);
    for b in bad.iter().take(3) {
        rep.violation("C10", "result-changes-at-the-dispatch-frontier", "frontier".into(), jobj! {"problem" => b.clone()});
    }
}

pub fn run(opts: &Opts, pools: &Pools, rep: &mut Report) {
    install_slab_monitor();
    if opts.replay.is_none() {
        frontier_sweep(opts, rep);
        rejected_then_accepted(opts, rep);
        if opts.shard % 8 == 3 {
            giant_contiguous(rep);
        }
    }
    let props = m_match::Props::parse("C10");
    // the long lived matcher whose history must not matter
    let mut veteran = m_match::initial_matcher(opts.seed, opts.shard, 0);
    let mut kept: Vec<(Case, bool, bool, Vec<(Option<u16>, Vec<u32>)>, u64)> = Vec::new();
    let range: Box<dyn Iterator<Item = u64>> = match opts.replay {
        Some(i) => Box::new(0..i + 1), // history matters: replay the whole prefix
        None => Box::new(0..opts.cases),
    };
    for idx in range {
        if idx % 64 == 0 && rep.elapsed() > opts.time_limit {
            rep.note(format!("time limit reached after {idx} cases"));
            break;
        }
        let mut rng = Rng::new(mix(&[opts.seed, opts.shard, idx, 10]));
        if idx % 1024 == 1023 {
            veteran = m_match::initial_matcher(opts.seed, opts.shard, idx / 1024 + 1);
        }
        if idx % 97 == 96 {
            // a clone of a used matcher takes over (it must not share or mis-copy scratch state)
            let copy = veteran.clone();
            veteran = copy;
            rep.count("c10.veteran-replaced-by-its-clone");
        }
        // alternate large and small inputs so that stale slab content differs maximally
        let case = gen_total_case(idx, &mut rng, pools);
        if case.needle.chars.iter().any(|&c| ref_norm(c, &case.cfg) != c) {
            rep.count("skipped.needle-not-a-fixed-point");
            continue;
        }
        rep.count("cases");
        rep.count(&format!("profile.{}", case.profile));
        let mut hsh = Hasher64::new();
        hsh.add_chars(&case.hay.chars);
        hsh.add_chars(&case.needle.chars);
        hsh.add(case.cfg.index() as u64);
        if !case.needle.is_empty() && case.needle.len() <= case.hay.len() {
            rep.distinct(hsh.finish());
        }
        if rep.want_sample() && idx % 13 == 4 {
            rep.sample(case.to_json_short());
        }
        let hr = !rng.chance(1, 3);
        let nr = !rng.chance(1, 3);
        // blocks of 8 cases share one configuration that is assigned once (a caller that sets its
        // configuration up front); in between the configuration is switched per call the way
        // Atom::score does it on a shared matcher
        let mut case = case;
        if (idx / 8) % 2 == 0 {
            let block_cfg = RCfg::from_index((mix(&[opts.seed, opts.shard, idx / 8]) % RCfg::COUNT as u64) as usize);
            case.cfg = block_cfg;
            let mut n = case.needle.chars.clone();
            normalize_needle(&mut n, &block_cfg);
            case.needle = Text::new(n);
            if idx % 8 == 0 || idx == 0 {
                veteran.config = block_cfg.real();
            }
            rep.count("c10.calls-under-a-configuration-set-once");
        } else {
            veteran.config = case.cfg.real();
        }
        let got = all_calls(&mut veteran, &case, hr, nr);
        if veteran.config != case.cfg.real() {
            rep.violation(
                "C10",
                "matching-changed-the-configuration",
                "config".into(),
                jobj! {"case" => case.to_json_short(), "case_id" => format!("{}:{}:{}", opts.seed, opts.shard, idx),
                       "expected" => format!("{:?}", case.cfg.real()), "found" => format!("{:?}", veteran.config)},
            );
            veteran.config = case.cfg.real();
        }
        let mut fresh = Matcher::new(case.cfg.real());
        let expected = all_calls(&mut fresh, &case, hr, nr);
        rep.add("calls", 24);
        if let (Ok(e), true) = (&expected, kept.len() < 1500 && case.hay.len() <= 1500) {
            kept.push((case.clone(), hr, nr, e.clone(), idx));
        }
        match (got, expected) {
            (Ok(g), Ok(e)) => {
                rep.count("c10.history-compared");
                if g != e {
                    let which = g.iter().zip(e.iter()).position(|(a, b)| a != b).unwrap_or(0);
                    let algo = ALGOS[which / 2];
                    rep.violation(
                        "C10",
                        "history-dependent-result",
                        format!("{}{}", algo.name(), if which % 2 == 1 { "_indices" } else { "_match" }),
                        jobj! {
                            "case" => case.to_json_short(),
                            "case_id" => format!("{}:{}:{}", opts.seed, opts.shard, idx),
                            "veteran" => format!("{:?}", g[which]),
                            "fresh" => format!("{:?}", e[which]),
                            "calls_served_before" => idx * 24,
                        },
                    );
                }
            }
            (g, e) => {
                rep.count("panics");
                let msg = g.err().or(e.err()).unwrap_or_default();
                let loc = msg.rsplit(" @ ").next().unwrap_or("").to_owned();
                if props.c10 {
                    rep.violation(
                        "C10",
                        "panic",
                        format!("panic@{loc}"),
                        jobj! {
                            "case" => case.to_json_short(),
                            "case_id" => format!("{}:{}:{}", opts.seed, opts.shard, idx),
                            "message" => msg,
                        },
                    );
                }
                veteran = Matcher::new(case.cfg.real());
            }
        }
    }
    // the same calls again, on fresh matchers, after everything else this process has done in between (process-wide state
    // such as caches must not matter either)
    for (case, hr, nr, first, idx) in kept.iter() {
        let mut fresh = Matcher::new(case.cfg.real());
        rep.count("c10.calls-repeated-at-the-end-of-the-run");
        match all_calls(&mut fresh, case, *hr, *nr) {
            Ok(again) if again == *first => (),
            Ok(again) => {
                let which = again.iter().zip(first.iter()).position(|(a, b)| a != b).unwrap_or(0);
                rep.violation(
                    "C10",
                    "history-dependent-result",
                    format!("{} repeated later in the same process", ALGOS[which / 2].name()),
                    jobj! {"case" => case.to_json_short(), "case_id" => format!("{}:{}:{}", opts.seed, opts.shard, idx),
                           "first" => format!("{:?}", first[which]), "later" => format!("{:?}", again[which]),
                           "note" => "both results come from freshly constructed matchers with the same configuration"},
                );
                break;
            }
            Err(msg) => {
                rep.violation("C10", "panic", format!("panic@{}", msg.rsplit(" @ ").next().unwrap_or("")), jobj! {"case" => case.to_json_short(), "message" => msg});
                break;
            }
        }
    }
    collect_slab_monitor(rep);
    if rep.get("slab.allocs-checked") == 0 && rep.get("cases") > 1000 {
        rep.inconclusive("slab hook never reached");
    }
    let _ = J::Null;
}
