//! Small deterministic PRNG (splitmix64 seeding + xoshiro256**), no external crates.

#[derive(Clone, Debug)]
pub struct Rng {
    s: [u64; 4],
}

pub fn splitmix64(state: &mut u64) -> u64 {
    *state = state.wrapping_add(0x9E37_79B9_7F4A_7C15);
    let mut z = *state;
    z = (z ^ (z >> 30)).wrapping_mul(0xBF58_476D_1CE4_E5B9);
    z = (z ^ (z >> 27)).wrapping_mul(0x94D0_49BB_1331_11EB);
    z ^ (z >> 31)
}

/// Mixes several integers into one seed (order sensitive).
pub fn mix(parts: &[u64]) -> u64 {
    let mut st = 0x243F_6A88_85A3_08D3u64;
    let mut acc = 0u64;
    for &p in parts {
        st ^= p.wrapping_mul(0x9E37_79B9_7F4A_7C15);
        acc = acc.rotate_left(23) ^ splitmix64(&mut st);
    }
    acc
}

impl Rng {
    pub fn new(seed: u64) -> Rng {
        let mut st = seed;
        let s = [
            splitmix64(&mut st),
            splitmix64(&mut st),
            splitmix64(&mut st),
            splitmix64(&mut st),
        ];
        Rng { s }
    }

    #[inline]
    pub fn next_u64(&mut self) -> u64 {
        let result = self.s[1].wrapping_mul(5).rotate_left(7).wrapping_mul(9);
        let t = self.s[1] << 17;
        self.s[2] ^= self.s[0];
        self.s[3] ^= self.s[1];
        self.s[1] ^= self.s[2];
        self.s[0] ^= self.s[3];
        self.s[2] ^= t;
        self.s[3] = self.s[3].rotate_left(45);
        result
    }

    /// uniform in 0..n (n > 0)
    #[inline]
    pub fn below(&mut self, n: usize) -> usize {
        debug_assert!(n > 0);
        ((self.next_u64() >> 11) % n as u64) as usize
    }

    /// uniform in lo..=hi
    #[inline]
    pub fn range(&mut self, lo: usize, hi: usize) -> usize {
        lo + self.below(hi - lo + 1)
    }

    #[inline]
    pub fn chance(&mut self, num: usize, den: usize) -> bool {
        self.below(den) < num
    }

    #[inline]
    pub fn coin(&mut self) -> bool {
        self.next_u64() & 1 == 1
    }

    #[inline]
    pub fn pick<'a, T>(&mut self, xs: &'a [T]) -> &'a T {
        &xs[self.below(xs.len())]
    }

    pub fn shuffle<T>(&mut self, xs: &mut [T]) {
        for i in (1..xs.len()).rev() {
            let j = self.below(i + 1);
            xs.swap(i, j);
        }
    }
}

/// FNV-1a style 64 bit hash used for distinct-case counting and replay file names
pub fn hash_bytes(bytes: &[u8]) -> u64 {
    let mut h = 0xcbf2_9ce4_8422_2325u64;
    for &b in bytes {
        h ^= b as u64;
        h = h.wrapping_mul(0x0000_0100_0000_01B3);
    }
    h ^ (h >> 29)
}

#[derive(Default, Clone, Copy)]
pub struct Hasher64(pub u64);
impl Hasher64 {
    pub fn new() -> Self {
        Hasher64(0xcbf2_9ce4_8422_2325)
    }
    #[inline]
    pub fn add(&mut self, v: u64) {
        self.0 ^= v;
        self.0 = self.0.wrapping_mul(0x0000_0100_0000_01B3);
        self.0 ^= self.0 >> 32;
    }
    pub fn add_chars(&mut self, cs: &[char]) {
        self.add(cs.len() as u64 ^ 0xABCD);
        for &c in cs {
            self.add(c as u64)
        }
    }
    pub fn finish(self) -> u64 {
        let mut st = self.0;
        splitmix64(&mut st)
    }
}
