//! C17: string conversion keeps the documented grapheme guarantees.
use std::borrow::Cow;

use nucleo_matcher::{Utf32Str, Utf32String};
use unicode_segmentation::UnicodeSegmentation;

use crate::jobj;
use crate::json::show_chars;
use crate::report::Report;
use crate::rng::{mix, Hasher64, Rng};

pub struct Opts {
    pub seed: u64,
    pub shard: u64,
    pub cases: u64,
    pub time_limit: f64,
    pub replay: Option<u64>,
}

const BLOCKS: &[&str] = &[
    "a", "b", "Z", "0", " ", "\t", "\r", "\n", "\r\n", "\n\r", "\r\r\n", "\u{b}", "\u{7f}", "\0",
    // base + marks
    "e\u{301}", "u\u{308}\u{304}", "\u{e9}", "\u{301}", "a\u{200d}", "\u{0915}\u{094d}\u{0937}", "\u{0e01}\u{0e33}",
    // ZWJ emoji sequences, modifiers, variation selectors
    "\u{1f468}\u{200d}\u{1f469}\u{200d}\u{1f467}", "\u{1f44d}\u{1f3fd}", "\u{2764}\u{fe0f}", "\u{1f600}",
    // regional indicators
    "\u{1f1e9}", "\u{1f1ea}", "\u{1f1e9}\u{1f1ea}", "\u{1f1e9}\u{1f1ea}\u{1f1eb}",
    // hangul jamo L V T, precomposed LV / LVT
    "\u{1100}", "\u{1161}", "\u{11a8}", "\u{1100}\u{1161}\u{11a8}", "\u{ac00}", "\u{ac01}", "\u{ac00}\u{11a8}",
    // prepend characters
    "\u{600}", "\u{600}a", "\u{110bd}\u{11083}",
    // block / plane edges
    "\u{7f}\u{80}", "\u{7ff}", "\u{800}", "\u{ffff}", "\u{10000}", "\u{10ffff}", "\u{d7ff}", "\u{e000}", "\u{fffd}",
    "\u{3000}", "\u{200b}", "\u{2028}", "\u{feff}",
];

/// long texts: plain ASCII filler with a few special pieces placed so that they straddle (or touch) byte offsets that are
/// multiples of a power of two (block-wise scanning, SIMD chunks, buffer growth steps)
fn gen_long_string(rng: &mut Rng) -> String {
    // a plain run that ends a few bytes short of a multiple of a power of two, then a character of 2, 3 or 4 bytes (output that is
    // batched through a fixed buffer has to flush before a character that no longer fits)
    if rng.chance(1, 4) {
        let b = *rng.pick(&[64usize, 128, 256, 512, 1024, 1024, 2048, 4096, 8192]);
        let run = b * rng.range(1, 3) - rng.below(8);
        let mut s: String = (0..run).map(|i| b"abcxyz 01"[i % 9] as char).collect();
        for _ in 0..rng.range(1, 3) {
            s.push(*rng.pick(&['\u{e9}', '\u{4e2d}', '\u{1f600}', '\u{10ffff}', '\u{7ff}']));
        }
        let tail = rng.below(40);
        s.extend((0..tail).map(|i| b"tail 9"[i % 6] as char));
        return s;
    }
    let block = *rng.pick(&[8usize, 16, 32, 64, 256, 1024, 4096]);
    let blocks = rng.range(1, if block >= 1024 { 3 } else { 6 });
    let len = block * blocks + rng.below(4);
    let mut bytes: Vec<u8> = (0..len).map(|i| b"abcxyz 01"[i % 9]).collect();
    let mut extra_non_ascii: Option<(usize, char)> = None;
    for _ in 0..rng.range(1, 4) {
        let k = rng.range(1, blocks);
        let boundary = block * k;
        match rng.below(8) {
            // CR is the last byte of one block, LF the first byte of the next
            0 | 1 | 2 if boundary < len => {
                bytes[boundary - 1] = b'\r';
                bytes[boundary] = b'\n';
            }
            // a lone CR as the last byte of a block / a lone LF as the first byte of a block (not a pair)
            5 if boundary < len && bytes[boundary] != b'\n' => bytes[boundary - 1] = b'\r',
            6 if boundary < len && bytes[boundary - 1] != b'\r' => bytes[boundary] = b'\n',
            // wholly before / after the boundary
            3 if boundary + 1 < len => {
                bytes[boundary] = b'\r';
                bytes[boundary + 1] = b'\n';
            }
            4 if boundary >= 2 => {
                bytes[boundary - 2] = b'\r';
                bytes[boundary - 1] = b'\n';
            }
            _ => {
                if extra_non_ascii.is_none() && boundary < len {
                    extra_non_ascii = Some((boundary - 1, *rng.pick(&['\u{e9}', '\u{4e2d}', '\u{301}', '\u{1f600}', '\u{600}', '\u{6dd}', '\u{110bd}', '\u{200d}', '\u{1f1e9}', '\u{1100}'])));
                }
            }
        }
    }
    // control bytes that differ from CR / LF in one bit, between a CR and an LF
    if rng.coin() {
        let p = rng.below(len.saturating_sub(4).max(1));
        if p + 3 < len && bytes[p..p + 4].iter().all(|b| *b != b'\r' && *b != b'\n') && (p == 0 || bytes[p - 1] != b'\r') && bytes.get(p + 4) != Some(&b'\n') {
            bytes[p] = b'\r';
            bytes[p + 1] = *rng.pick(&[0x0cu8, 0x0b, 0x0e, 0x0f]);
            if rng.coin() {
                bytes[p + 2] = 0x0c;
            }
            bytes[p + 3] = b'\n';
        }
    }
    // lone CR / LF elsewhere must not be paired up
    if rng.coin() {
        let p = rng.below(len);
        if bytes[p] != b'\r' && bytes[p] != b'\n' && (p == 0 || bytes[p - 1] != b'\r') && (p + 1 >= len || bytes[p + 1] != b'\n') {
            bytes[p] = if rng.coin() { b'\r' } else { b'\n' };
        }
    }
    let mut s = String::from_utf8(bytes).unwrap();
    if let Some((p, c)) = extra_non_ascii {
        s.insert(p, c);
    }
    s
}

fn gen_string(rng: &mut Rng) -> String {
    if rng.chance(1, 48) {
        return gen_long_string(rng);
    }
    let mut s = String::new();
    let ascii_only = rng.chance(1, 4);
    // ASCII-only texts are also made longer than one machine word / vector register
    let n = if ascii_only && rng.coin() { rng.range(8, 40) } else { rng.range(0, 10) };
    for _ in 0..n {
        if ascii_only {
            // (including the bytes that differ from CR / LF in one bit)
            s.push_str(*rng.pick(&[
                "a", "b", " ", "\r", "\n", "\r\n", "x", "\t", "\u{b}", "\u{7f}", "\u{c}", "\u{c}", "\u{e}", "\u{8}", "\u{f}", "\u{5}", "\u{2}", "\u{1d}", "\u{1a}", "-", "M", "*",
                "J", "\0", "\r\u{c}\n", "\r\u{b}\n",
            ]));
        } else if rng.chance(1, 8) {
            // uniformly random scalar value
            loop {
                if let Some(c) = char::from_u32(rng.below(0x110000) as u32) {
                    s.push(c);
                    break;
                }
            }
        } else {
            s.push_str(*rng.pick(BLOCKS));
        }
    }
    // special pieces in front of / behind a long plain ASCII run (the last cluster of the special part may reach into it:
    // a prepend character or a lone CR joins what follows, a mark or a joiner what precedes)
    if !ascii_only && rng.chance(1, 6) {
        let run: String = (0..rng.range(16, 70)).map(|i| b"1234567890abcdef ghij"[i % 21] as char).collect();
        match rng.below(3) {
            0 => s.push_str(&run),
            1 => s.insert_str(0, &run),
            _ => {
                s.insert_str(0, &run);
                s.push_str(&run);
            }
        }
    }
    s
}

/// the documented content: first code point of each extended grapheme cluster, `\n` for CR LF
fn expected(s: &str) -> Vec<char> {
    s.graphemes(true)
        .map(|g| if g == "\r\n" { '\n' } else { g.chars().next().unwrap() })
        .collect()
}

fn content(s: Utf32Str<'_>) -> Vec<char> {
    s.chars().collect()
}

pub fn run(opts: &Opts, rep: &mut Report) {
    let range: Box<dyn Iterator<Item = u64>> = match opts.replay {
        Some(i) => Box::new(i..i + 1),
        None => Box::new(0..opts.cases),
    };
    let mut buf: Vec<char> = vec!['j', 'u', 'n', 'k'];
    for idx in range {
        if idx % 128 == 0 && rep.elapsed() > opts.time_limit {
            rep.note(format!("time limit reached after {idx} cases"));
            break;
        }
        let mut rng = Rng::new(mix(&[opts.seed, opts.shard, idx, 17]));
        let s = gen_string(&mut rng);
        let case_id = format!("{}:{}:{}", opts.seed, opts.shard, idx);
        rep.count("cases");
        let buf_ref = &mut buf;
        crate::refm::guard_case(rep, "C17", &case_id.clone(), move |rep| {
        let buf = buf_ref;
        let exp = expected(&s);
        let should_be_ascii = s.is_ascii() && !s.contains("\r\n");
        let all: Vec<char> = s.chars().collect();
        if exp.len() != all.len() {
            rep.count("c17.with-multi-codepoint-clusters");
            let mut h = Hasher64::new();
            h.add_chars(&all);
            rep.distinct(h.finish());
        }
        if s.contains("\r\n") {
            rep.count("c17.with-crlf");
        }
        if rep.want_sample() && idx % 23 == 5 {
            rep.sample(jobj! {"string" => show_chars(&all), "clusters" => exp.len(), "ascii_form" => should_be_ascii});
        }
        let mut fail = |kind: &str, what: String, rep: &mut Report| {
            rep.violation(
                "C17",
                kind,
                format!("ascii={} crlf={}", s.is_ascii(), s.contains("\r\n")),
                jobj! {"string" => show_chars(&all), "expected" => show_chars(&exp), "problem" => what, "case_id" => case_id.clone()},
            );
        };
        let owned = Utf32String::from(s.as_str());
        // representation choice
        let is_ascii_variant = matches!(owned, Utf32String::Ascii(_));
        if is_ascii_variant != should_be_ascii {
            fail("wrong-representation", format!("Ascii variant: {is_ascii_variant}, expected {should_be_ascii}"), rep);
        }
        if owned.slice(..).is_ascii() != is_ascii_variant {
            fail("is-ascii-inconsistent", String::new(), rep);
        }
        match &owned {
            Utf32String::Ascii(b) => {
                if &**b != s.as_str() {
                    fail("ascii-bytes-differ", format!("{b:?}"), rep);
                }
            }
            Utf32String::Unicode(cs) => {
                if cs[..] != exp[..] {
                    fail("content-not-grapheme-firsts", show_chars(cs), rep);
                }
            }
        }
        if owned.len() != exp.len() || owned.is_empty() != exp.is_empty() {
            fail("length-not-cluster-count", format!("len {} clusters {}", owned.len(), exp.len()), rep);
        }
        // every constructor produces the same content
        let c2 = Utf32String::from(s.clone());
        let c3 = Utf32String::from(s.clone().into_boxed_str());
        let c4 = Utf32String::from(Cow::Borrowed(s.as_str()));
        let c5 = Utf32String::from(Cow::<str>::Owned(s.clone()));
        if rng.coin() {
            buf.clear();
        }
        let c6 = Utf32Str::new(&s, buf);
        for (name, c) in [("String", &c2), ("Box<str>", &c3), ("Cow::Borrowed", &c4), ("Cow::Owned", &c5)] {
            if *c != owned {
                fail("constructors-disagree", format!("From<{name}> = {c:?}, From<&str> = {owned:?}"), rep);
            }
        }
        if c6 != owned.slice(..) || c6.len() != exp.len() || content(c6) != exp {
            fail("constructors-disagree", format!("Utf32Str::new = {c6:?}, From<&str> = {owned:?}"), rep);
        }
        rep.add("c17.constructors-compared", 5);
        // the same text as a view into a larger buffer, at every start address modulo the machine word / vector width
        for pad in 1..=(if idx % 4 == 0 { 16 } else { 3 }) {
            let mut padded = String::with_capacity(s.len() + pad + 8);
            padded.push_str(&"zzzzzzzzzzzzzzzz"[..pad]);
            padded.push_str(&s);
            padded.push_str("tail");
            let view_str = &padded[pad..pad + s.len()];
            let from_view = Utf32String::from(view_str);
            let mut b2 = Vec::new();
            let new_view = Utf32Str::new(view_str, &mut b2);
            if from_view != owned || new_view != owned.slice(..) {
                fail(
                    "constructors-disagree",
                    format!("the text taken as a view {pad} bytes into a larger buffer converts to {from_view:?} / {new_view:?}, as an owned String to {owned:?}"),
                    rep,
                );
                break;
            }
        }
        rep.count("c17.views-into-larger-buffers-compared");
        // views agree with the content
        let view = owned.slice(..);
        if content(view) != exp {
            fail("chars-differ", show_chars(&content(view)), rep);
        }
        let mut rev: Vec<char> = view.chars().rev().collect();
        rev.reverse();
        if rev != exp {
            fail("reverse-iteration-differs", show_chars(&rev), rep);
        }
        // iterator adaptors that slice iterators specialise (nth, nth_back, size_hint, count, last)
        {
            let n = exp.len();
            let it = view.chars();
            let (lo, hi) = it.size_hint();
            if lo > n || hi.map_or(false, |h| h < n) {
                fail("size-hint-wrong", format!("size_hint ({lo}, {hi:?}) for {n} chars"), rep);
            }
            if view.chars().count() != n || view.chars().last() != exp.last().copied() {
                fail("count-or-last-differs", String::new(), rep);
            }
            for _ in 0..3 {
                let k = rng.below(n + 2);
                let a = rng.below(n + 1);
                let mut f = view.chars();
                let mut b = view.chars();
                // consume a few from the front first so that the adaptors work on an advanced iterator
                for _ in 0..a.min(2) {
                    f.next();
                    b.next();
                }
                let base = a.min(2).min(n);
                let rest = &exp[base..];
                if f.nth(k) != rest.get(k).copied() {
                    fail("nth-differs", format!("chars().nth({k}) after {base} next() calls"), rep);
                }
                let want_back = if k < rest.len() { Some(rest[rest.len() - 1 - k]) } else { None };
                if b.nth_back(k) != want_back {
                    fail("nth-back-differs", format!("chars().nth_back({k}) after {base} next() calls"), rep);
                }
                if view.chars().rev().nth(k) != exp.iter().rev().nth(k).copied() {
                    fail("rev-nth-differs", format!("chars().rev().nth({k})"), rep);
                }
                let skipped: Vec<char> = view.chars().rev().skip(k).collect();
                let want: Vec<char> = exp.iter().rev().skip(k).copied().collect();
                if skipped != want {
                    fail("rev-skip-differs", format!("chars().rev().skip({k})"), rep);
                }
            }
            rep.count("c17.iterator-adaptors-checked");
        }
        let disp: String = exp.iter().collect();
        if owned.to_string() != disp || view.to_string() != disp {
            fail("display-differs", owned.to_string(), rep);
        }
        for (i, &e) in exp.iter().enumerate() {
            if view.get(i as u32) != e {
                fail("get-differs", format!("index {i}"), rep);
                break;
            }
        }
        let n = exp.len();
        let mut bad_slice = None;
        if n > 48 {
            rep.count("c17.long-texts");
            // long texts: sampled ranges instead of all O(n^2)
            for _ in 0..200 {
                let a = rng.below(n + 1);
                let b = a + rng.below(n - a + 1);
                rep.count("c17.ranges-checked");
                let e = &exp[a..b];
                if content(owned.slice(a..b)) != e || content(view.slice_u32(a as u32..b as u32)) != e || content(view.slice(a..)) != exp[a..] || content(owned.slice(..b)) != exp[..b] {
                    bad_slice = Some(format!("{a}..{b}"));
                    break;
                }
            }
        }
        'outer: for a in 0..=n.min(if n > 48 { 0 } else { n }) {
            if n > 48 {
                break;
            }
            for b in a..=n {
                rep.count("c17.ranges-checked");
                let e = &exp[a..b];
                let candidates = [
                    content(owned.slice(a..b)),
                    content(view.slice(a..b)),
                    content(owned.slice_u32(a as u32..b as u32)),
                    content(view.slice_u32(a as u32..b as u32)),
                ];
                if candidates.iter().any(|c| c != e) {
                    bad_slice = Some(format!("{a}..{b}"));
                    break 'outer;
                }
                if b > a && content(view.slice(a..=b - 1)) != e {
                    bad_slice = Some(format!("{a}..={}", b - 1));
                    break 'outer;
                }
                if b > a && content(owned.slice_u32(a as u32..=b as u32 - 1)) != e {
                    bad_slice = Some(format!("u32 {a}..={}", b - 1));
                    break 'outer;
                }
                if view.slice(a..b).to_string() != e.iter().collect::<String>() {
                    bad_slice = Some(format!("display of {a}..{b}"));
                    break 'outer;
                }
            }
            if content(view.slice(a..)) != exp[a..] || content(owned.slice(..a)) != exp[..a] {
                bad_slice = Some(format!("open range at {a}"));
                break;
            }
            if content(view.slice_u32(a as u32..)) != exp[a..] || content(owned.slice_u32(..a as u32)) != exp[..a] {
                bad_slice = Some(format!("open u32 range at {a}"));
                break;
            }
        }
        if let Some(r) = bad_slice {
            fail("slice-differs", r, rep);
        }
        });
    }
}
