//! C14: one pattern grammar regardless of the characters involved.
use nucleo_matcher::chars;
use nucleo_matcher::pattern::{Atom, AtomKind, CaseMatching, Normalization, Pattern};
use unicode_segmentation::UnicodeSegmentation;

use crate::jobj;
use crate::json::{show_chars, J};
use crate::report::Report;
use crate::rng::{mix, Hasher64, Rng};

pub struct Opts {
    pub seed: u64,
    pub shard: u64,
    pub cases: u64,
    pub time_limit: f64,
    pub replay: Option<u64>,
}

#[derive(Debug, Clone, PartialEq)]
pub struct RAtom {
    pub negative: bool,
    pub kind: AtomKind,
    pub needle: Vec<char>,
    /// acceptable values of the ignore_case flag
    pub ignore_case: Vec<bool>,
    /// acceptable values of the normalize flag
    pub normalize: Vec<bool>,
}

/// first code point of every extended grapheme cluster (`\n` for CR LF)
pub fn grapheme_firsts(s: &str) -> Vec<char> {
    s.graphemes(true)
        .map(|g| if g == "\r\n" { '\n' } else { g.chars().next().unwrap() })
        .collect()
}

/// A multi code point cluster that contains a backslash: the crate keeps one character per cluster, so whether the
/// backslash "is there" (and escapes the following space) depends on whether clusters are formed before or after
/// unescaping - the property is silent about that, such inputs are not judged.
pub fn syntax_inside_cluster(s: &str) -> bool {
    use unicode_segmentation::UnicodeSegmentation;
    // only a backslash inside a cluster makes the two orders differ: markers are read from the text before clusters are
    // formed, unescaped whitespace splits at the character level, and an escaped space followed by an extending character
    // is the first character of its cluster either way
    s.graphemes(true).any(|g| g != "\r\n" && g.chars().count() > 1 && g.chars().any(|c| c == '\\'))
}

pub fn ref_split(pattern: &str) -> Vec<String> {
    let mut out = Vec::new();
    let mut cur = String::new();
    let mut prev_backslash = false;
    for c in pattern.chars() {
        if c.is_whitespace() && !prev_backslash {
            out.push(std::mem::take(&mut cur));
            prev_backslash = false;
            continue;
        }
        prev_backslash = c == '\\';
        cur.push(c);
    }
    out.push(cur);
    out
}

fn uppercase_reading(c: char) -> Option<bool> {
    // judged strictly only where Unicode's Uppercase property and the crate's documented
    // definition (has a simple case folding) agree
    let a = c.is_uppercase();
    let b = chars::is_upper_case(c);
    if a == b {
        Some(a)
    } else {
        None
    }
}

pub fn ref_parse_atom(raw: &str, case: CaseMatching, norm: Normalization) -> RAtom {
    let mut cs: Vec<char> = raw.chars().collect();
    let mut negative = false;
    if cs.first() == Some(&'!') {
        negative = true;
        cs.remove(0);
    } else if cs.len() >= 2 && cs[0] == '\\' && cs[1] == '!' {
        cs.remove(0);
    }
    let mut kind = AtomKind::Fuzzy;
    if cs.first() == Some(&'^') {
        kind = AtomKind::Prefix;
        cs.remove(0);
    } else if cs.first() == Some(&'\'') {
        kind = AtomKind::Substring;
        cs.remove(0);
    } else if cs.len() >= 2 && cs[0] == '\\' && (cs[1] == '^' || cs[1] == '\'') {
        cs.remove(0);
    }
    let mut append_dollar = false;
    let n = cs.len();
    if n >= 2 && cs[n - 2] == '\\' && cs[n - 1] == '$' {
        append_dollar = true;
        cs.truncate(n - 2);
    } else if n >= 1 && cs[n - 1] == '$' {
        kind = if kind == AtomKind::Fuzzy {
            AtomKind::Postfix
        } else {
            AtomKind::Exact
        };
        cs.truncate(n - 1);
    }
    if negative && kind == AtomKind::Fuzzy {
        kind = AtomKind::Substring;
    }
    // an escaped space becomes a literal space, everything else is kept literally
    let mut text = String::new();
    let mut i = 0;
    while i < cs.len() {
        if cs[i] == '\\' && i + 1 < cs.len() && cs[i + 1] == ' ' {
            text.push(' ');
            i += 2;
        } else {
            text.push(cs[i]);
            i += 1;
        }
    }
    let original = grapheme_firsts(&text);
    let mut needle = original.clone();
    if matches!(case, CaseMatching::Ignore) {
        for c in needle.iter_mut() {
            *c = chars::to_lower_case(*c);
        }
    }
    let ignore_case = match case {
        CaseMatching::Ignore => vec![true],
        CaseMatching::Respect => vec![false],
        CaseMatching::Smart => {
            let readings: Vec<Option<bool>> = original.iter().map(|&c| uppercase_reading(c)).collect();
            if readings.iter().any(|r| *r == Some(true)) {
                vec![false]
            } else if readings.iter().any(|r| r.is_none()) {
                vec![true, false]
            } else {
                vec![true]
            }
        }
        _ => vec![true, false],
    };
    let normalize = match norm {
        Normalization::Never => vec![false],
        Normalization::Smart => {
            // judged on the stored (case folded) needle; where only the typed text has a normalizable
            // character (U+017F and three others) both readings of "the atom" are accepted, but a stored
            // needle with a normalizable character and normalization on could never match anything
            let a = original.iter().all(|&c| chars::normalize(c) == c);
            let b = needle.iter().all(|&c| chars::normalize(c) == c);
            if a == b || !b {
                vec![b]
            } else {
                vec![a, b]
            }
        }
        _ => vec![true, false],
    };
    if append_dollar {
        needle.push('$');
    }
    RAtom {
        negative,
        kind,
        needle,
        ignore_case,
        normalize,
    }
}

pub fn ref_parse(pattern: &str, case: CaseMatching, norm: Normalization) -> Vec<RAtom> {
    ref_split(pattern)
        .iter()
        .map(|a| ref_parse_atom(a, case, norm))
        .filter(|a| !a.needle.is_empty())
        .collect()
}

/// reference for `Atom::new` / `Pattern::new`: no marker parsing, optional unescaping of `\ `
pub fn ref_new_atom(raw: &str, case: CaseMatching, norm: Normalization, kind: AtomKind, escape_ws: bool) -> RAtom {
    // reuse the parser on a text whose markers are neutralised: build the result directly instead
    let cs: Vec<char> = raw.chars().collect();
    let mut text = String::new();
    let mut i = 0;
    while i < cs.len() {
        if escape_ws && cs[i] == '\\' && i + 1 < cs.len() && cs[i + 1] == ' ' {
            text.push(' ');
            i += 2;
        } else {
            text.push(cs[i]);
            i += 1;
        }
    }
    let original = grapheme_firsts(&text);
    let mut needle = original.clone();
    if matches!(case, CaseMatching::Ignore) {
        for c in needle.iter_mut() {
            *c = chars::to_lower_case(*c);
        }
    }
    let ignore_case = match case {
        CaseMatching::Ignore => vec![true],
        CaseMatching::Respect => vec![false],
        CaseMatching::Smart => {
            let readings: Vec<Option<bool>> = original.iter().map(|&c| uppercase_reading(c)).collect();
            if readings.iter().any(|r| *r == Some(true)) {
                vec![false]
            } else if readings.iter().any(|r| r.is_none()) {
                vec![true, false]
            } else {
                vec![true]
            }
        }
        _ => vec![true, false],
    };
    let normalize = match norm {
        Normalization::Never => vec![false],
        Normalization::Smart => {
            // judged on the stored (case folded) needle; where only the typed text has a normalizable
            // character (U+017F and three others) both readings of "the atom" are accepted, but a stored
            // needle with a normalizable character and normalization on could never match anything
            let a = original.iter().all(|&c| chars::normalize(c) == c);
            let b = needle.iter().all(|&c| chars::normalize(c) == c);
            if a == b || !b {
                vec![b]
            } else {
                vec![a, b]
            }
        }
        _ => vec![true, false],
    };
    RAtom {
        negative: false,
        kind,
        needle,
        ignore_case,
        normalize,
    }
}

pub fn atom_flags(atom: &Atom) -> (bool, bool) {
    let dbg = format!("{atom:?}");
    (
        dbg.contains("ignore_case: true"),
        dbg.contains("normalize: true"),
    )
}

fn needle_chars(atom: &Atom) -> Vec<char> {
    atom.needle_text().chars().collect()
}

fn compare(real: &[Atom], reference: &[RAtom]) -> Option<String> {
    if real.len() != reference.len() {
        return Some(format!("{} atoms, reference {}", real.len(), reference.len()));
    }
    for (i, (a, r)) in real.iter().zip(reference).enumerate() {
        if a.negative != r.negative {
            return Some(format!("atom {i}: negative {} reference {}", a.negative, r.negative));
        }
        if a.kind != r.kind {
            return Some(format!("atom {i}: kind {:?} reference {:?}", a.kind, r.kind));
        }
        let n = needle_chars(a);
        if n != r.needle {
            return Some(format!(
                "atom {i}: needle {:?} reference {:?}",
                show_chars(&n),
                show_chars(&r.needle)
            ));
        }
        let (ic, nm) = atom_flags(a);
        if !r.ignore_case.contains(&ic) {
            return Some(format!("atom {i}: ignore_case {ic} reference {:?}", r.ignore_case));
        }
        if !r.normalize.contains(&nm) {
            return Some(format!("atom {i}: normalize {nm} reference {:?}", r.normalize));
        }
        if ic && n.iter().any(|&c| chars::to_lower_case(c) != c) {
            return Some(format!("atom {i}: ignore-case needle is not case folded"));
        }
    }
    None
}

const LETTERS: &[char] = &['a', 'b', 'x', 'A', 'X'];
const NONASCII: &[char] = &[
    '\u{e9}', '\u{c9}', '\u{3042}', '\u{4e2d}', '\u{5d1}', '\u{3c2}', '\u{df}', '\u{3bb}', '\u{39b}', '\u{1e9e}',
    '\u{1c5}', '\u{a7b1}', '\u{2c7c}',
];
// code points that join the preceding / following one into a single extended grapheme cluster (combining marks, variation
// selector, zero width joiner, Hangul jamo, regional indicators, a prepend character)
const JOINING: &[char] = &['\u{301}', '\u{308}', '\u{fe0f}', '\u{200d}', '\u{1100}', '\u{1161}', '\u{11a8}', '\u{1f1e6}', '\u{1f1fa}', '\u{600}', '\u{1f468}'];
// characters whose code point equals a syntax character (space, backslash, the markers) when truncated to 8 or 16 bits
const SYNTAX_ALIASES: &[char] = &[
    '\u{420}', '\u{4f20}', '\u{1f420}', '\u{10020}', '\u{45c}', '\u{5c5c}', '\u{1005c}', '\u{421}', '\u{10021}', '\u{45e}', '\u{1f45e}', '\u{427}',
    '\u{10027}', '\u{424}', '\u{1f424}', '\u{120}', '\u{15c}', '\u{409}', '\u{40a}', '\u{1000a}',
];
const UNCASED: &[char] = &['\u{3042}', '\u{4e2d}', '\u{5d1}'];
// every White_Space code point (the splitter is documented in terms of char::is_whitespace)
const SPACES: &[char] = &[
    ' ', ' ', ' ', ' ', ' ', ' ', '\t', '\n', '\r', '\u{b}', '\u{c}', '\u{85}', '\u{a0}', '\u{1680}', '\u{2000}', '\u{2001}', '\u{2002}', '\u{2003}', '\u{2004}',
    '\u{2005}', '\u{2006}', '\u{2007}', '\u{2008}', '\u{2009}', '\u{200a}', '\u{2028}', '\u{2029}', '\u{202f}', '\u{205f}', '\u{3000}',
];
const MARKERS: &[char] = &['\\', '\\', '!', '^', '\'', '$'];

fn gen_pattern(rng: &mut Rng, allow_nonascii: bool) -> String {
    // one pattern in 300 is a pasted text: thousands of characters, hundreds to thousands of atoms, runs of blanks
    let long = rng.chance(1, 300);
    let len = if long { rng.range(1500, 9000) } else { rng.range(0, 12) };
    let mut s = String::new();
    // one pattern in 16 starts with a word of 8-26 lower case letters in which a single character is a capital (or one of its
    // neighbours in the code table), at any offset: word-at-a-time scans for "has an upper case letter"
    if !long && rng.chance(1, 16) {
        let n = rng.range(8, 26);
        let at = rng.below(n);
        for i in 0..n {
            s.push(if i == at { *rng.pick(&['Z', 'A', 'M', 'Z', '@', '[', '`', '{', 'z']) } else { (b'a' + ((i * 7 + at) % 26) as u8) as char });
        }
        if rng.coin() {
            return s;
        }
        s.push(' ');
    }
    for _ in 0..len {
        let c = match rng.below(10) {
            0..=3 => *rng.pick(LETTERS),
            4 | 5 => *rng.pick(MARKERS),
            6 | 7 => *rng.pick(SPACES),
            _ => {
                if allow_nonascii && !long && rng.chance(1, 3) {
                    *rng.pick(JOINING)
                } else if allow_nonascii && rng.chance(1, 3) {
                    *rng.pick(SYNTAX_ALIASES)
                } else if allow_nonascii {
                    *rng.pick(NONASCII)
                } else {
                    *rng.pick(LETTERS)
                }
            }
        };
        s.push(c);
    }
    s
}

fn gen_settings(rng: &mut Rng) -> (CaseMatching, Normalization) {
    (
        *rng.pick(&[CaseMatching::Respect, CaseMatching::Ignore, CaseMatching::Smart]),
        *rng.pick(&[Normalization::Never, Normalization::Smart]),
    )
}

fn class_of(p: &str) -> String {
    format!(
        "nonascii={} backslash={}",
        !p.is_ascii(),
        p.contains('\\')
    )
}

/// escaped form of a literal text (one fuzzy atom whose needle is the text)
fn escape_literal(t: &[char]) -> String {
    let mut s = String::new();
    for (i, &c) in t.iter().enumerate() {
        if c == ' ' {
            s.push('\\');
            s.push(' ');
        } else if i == 0 && matches!(c, '!' | '^' | '\'') {
            s.push('\\');
            s.push(c);
        } else if i + 1 == t.len() && c == '$' {
            s.push('\\');
            s.push(c);
        } else {
            s.push(c);
        }
    }
    s
}

/// every character that case folding or normalization moves, alone and next to other characters, under every
/// setting: the interplay of case folding and smart normalization depends on single table entries
fn sweep_moved_chars(opts: &Opts, rep: &mut Report) {
    let mut moved = Vec::new();
    for u in 0x80..=0x10FFFFu32 {
        let Some(c) = char::from_u32(u) else { continue };
        if chars::to_lower_case(c) != c || chars::normalize(c) != c {
            moved.push(c);
        }
    }
    for (k, &c) in moved.iter().enumerate() {
        for case in [CaseMatching::Respect, CaseMatching::Ignore, CaseMatching::Smart] {
            for norm in [Normalization::Never, Normalization::Smart] {
                for text in [format!("{c}"), format!("{c}\u{4e2d}"), format!("a{c}"), format!("^{c}b$")] {
                    let case_id = format!("{}:{}:sweep{}", opts.seed, opts.shard, k);
                    rep.count("c14.sweep-parsed");
                    let res = crate::refm::caught(|| {
                        let real = Pattern::parse(&text, case, norm);
                        let reference = ref_parse(&text, case, norm);
                        let mut d = compare(&real.atoms, &reference);
                        if d.is_none() {
                            let a = Atom::new(&text, case, norm, AtomKind::Fuzzy, false);
                            let r = ref_new_atom(&text, case, norm, AtomKind::Fuzzy, false);
                            d = compare(std::slice::from_ref(&a), std::slice::from_ref(&r)).map(|d| format!("Atom::new: {d}"));
                        }
                        (d, format!("{:?}", real.atoms))
                    });
                    match res {
                        Ok((Some(diff), real)) => {
                            let what: String = diff.split(':').nth(1).unwrap_or(&diff).split_whitespace().take(1).collect();
                            rep.violation(
                                "C14",
                                "parse-differs-from-grammar",
                                format!("sweep {what} {case:?}/{norm:?}"),
                                jobj! {"pattern" => show_chars(&text.chars().collect::<Vec<_>>()), "settings" => format!("{case:?}/{norm:?}"),
                                       "difference" => diff, "real" => real, "case_id" => case_id},
                            );
                        }
                        Ok((None, _)) => (),
                        Err(msg) => {
                            let loc = msg.rsplit(" @ ").next().unwrap_or("").to_owned();
                            if crate::refm::in_repository(&loc) {
                                rep.violation("C14", "panic-in-pattern-api", format!("panic@{loc}"), jobj! {"message" => msg, "case_id" => case_id});
                            } else {
                                rep.inconclusive(format!("monitor panicked outside the repository code: {msg}"));
                            }
                        }
                    }
                }
            }
        }
    }
    rep.add("c14.sweep-chars", moved.len() as u64);
}

pub fn run(opts: &Opts, rep: &mut Report) {
    let range: Box<dyn Iterator<Item = u64>> = match opts.replay {
        Some(i) => Box::new(i..i + 1),
        None => Box::new(0..opts.cases),
    };
    let mut reused = Pattern::parse("", CaseMatching::Smart, Normalization::Smart);
    if opts.replay.is_none() && opts.shard % 4 == 0 {
        sweep_moved_chars(opts, rep);
    }
    for idx in range {
        if idx % 256 == 0 && rep.elapsed() > opts.time_limit {
            rep.note(format!("time limit reached after {idx} cases"));
            break;
        }
        let mut rng = Rng::new(mix(&[opts.seed, opts.shard, idx, 14]));
        let case_id = format!("{}:{}:{}", opts.seed, opts.shard, idx);
        rep.count("cases");
        let (case, norm) = gen_settings(&mut rng);
        let settings = format!("{case:?}/{norm:?}");
        let reused_ref = &mut reused;
        crate::refm::guard_case(rep, "C14", &case_id.clone(), move |rep| {
        let reused = reused_ref;
        match idx % 4 {
            // (a) + (d) + (e): parse == reference parse; reparse on a used object == fresh parse
            0 | 1 => {
                let p = gen_pattern(&mut rng, idx % 4 == 1);
                if syntax_inside_cluster(&p) {
                    rep.count("c14.syntax-inside-a-cluster-not-judged");
                    return;
                }
                if p.chars().any(|c| JOINING.contains(&c)) {
                    rep.count("c14.parsed-with-multi-code-point-clusters");
                }
                let real = Pattern::parse(&p, case, norm);
                let reference = ref_parse(&p, case, norm);
                rep.count("c14.parsed");
                rep.add("c14.atoms", reference.len() as u64);
                if p.chars().filter(|c| c.is_whitespace()).count() > 1024 {
                    rep.count("c14.parsed-with-more-than-1024-blanks");
                }
                if !reference.is_empty() {
                    let mut h = Hasher64::new();
                    h.add_chars(&p.chars().collect::<Vec<_>>());
                    h.add(case as u64 * 4 + norm as u64);
                    rep.distinct(h.finish());
                }
                if rep.want_sample() && idx % 17 == 1 {
                    rep.sample(jobj! {"pattern" => show_chars(&p.chars().collect::<Vec<_>>()), "settings" => settings.clone(),
                        "atoms" => format!("{:?}", real.atoms)});
                }
                if let Some(diff) = compare(&real.atoms, &reference) {
                    let what: String = diff.split(':').nth(1).unwrap_or(&diff).split_whitespace().take(1).collect();
                    rep.violation(
                        "C14",
                        "parse-differs-from-grammar",
                        format!("{} {what}", class_of(&p)),
                        jobj! {"pattern" => show_chars(&p.chars().collect::<Vec<_>>()), "settings" => settings.clone(),
                               "difference" => diff, "real" => format!("{:?}", real.atoms), "case_id" => case_id.clone()},
                    );
                }
                // the constructors that do not parse markers
                if idx % 8 < 2 {
                    let kind = *rng.pick(&[AtomKind::Fuzzy, AtomKind::Substring, AtomKind::Prefix, AtomKind::Postfix, AtomKind::Exact]);
                    let real_new = Pattern::new(&p, case, norm, kind);
                    let reference_new: Vec<RAtom> = ref_split(&p)
                        .iter()
                        .map(|a| ref_new_atom(a, case, norm, kind, true))
                        .filter(|a| !a.needle.is_empty())
                        .collect();
                    rep.count("c14.pattern-new-checked");
                    if let Some(diff) = compare(&real_new.atoms, &reference_new) {
                        rep.violation(
                            "C14",
                            "pattern-new-differs-from-grammar",
                            class_of(&p),
                            jobj! {"pattern" => show_chars(&p.chars().collect::<Vec<_>>()), "settings" => settings.clone(), "kind" => format!("{kind:?}"),
                                   "difference" => diff, "real" => format!("{:?}", real_new.atoms), "case_id" => case_id.clone()},
                        );
                    }
                    // a single atom from the whole text, with and without unescaping
                    for esc in [false, true] {
                        if p.contains("\r\n") {
                            // observation, outside the properties: an ASCII text with CR LF handed to Atom::new as ONE
                            // atom keeps CR LF as two characters in an Ascii-held needle (parsing can never produce
                            // such an atom because CR and LF split); not judged
                            rep.count("c14.atom-new-with-crlf-not-judged");
                            continue;
                        }
                        let a = Atom::new(&p, case, norm, kind, esc);
                        let r = ref_new_atom(&p, case, norm, kind, esc);
                        if let Some(diff) = compare(std::slice::from_ref(&a), std::slice::from_ref(&r)) {
                            rep.violation(
                                "C14",
                                "atom-new-differs-from-grammar",
                                format!("{} escape={esc}", class_of(&p)),
                                jobj! {"text" => show_chars(&p.chars().collect::<Vec<_>>()), "settings" => settings.clone(), "escape_whitespace" => esc,
                                       "difference" => diff, "real" => format!("{a:?}"), "case_id" => case_id.clone()},
                            );
                        }
                    }
                }
                reused.reparse(&p, case, norm);
                rep.count("c14.reparsed");
                if reused.atoms != real.atoms {
                    rep.violation(
                        "C14",
                        "reparse-differs-from-parse",
                        class_of(&p),
                        jobj! {"pattern" => show_chars(&p.chars().collect::<Vec<_>>()), "settings" => settings.clone(),
                               "reparse" => format!("{:?}", reused.atoms), "parse" => format!("{:?}", real.atoms), "case_id" => case_id.clone()},
                    );
                }
            }
            // (b) metamorphic: substitute one ASCII letter by an uncased non-ASCII letter
            2 => {
                let p = gen_pattern(&mut rng, false);
                let letter = *rng.pick(&['a', 'b', 'x']);
                if !p.contains(letter) || p.contains(letter.to_ascii_uppercase()) {
                    rep.count("c14.metamorphic-skipped");
                    return;
                }
                let u = *rng.pick(UNCASED);
                let p2: String = p.chars().map(|c| if c == letter { u } else { c }).collect();
                let a1 = Pattern::parse(&p, case, norm);
                let a2 = Pattern::parse(&p2, case, norm);
                rep.count("c14.metamorphic");
                let mut h = Hasher64::new();
                h.add_chars(&p2.chars().collect::<Vec<_>>());
                rep.distinct(h.finish());
                let mut diff = None;
                if a1.atoms.len() != a2.atoms.len() {
                    diff = Some(format!("{} atoms vs {}", a1.atoms.len(), a2.atoms.len()));
                } else {
                    for (x, y) in a1.atoms.iter().zip(&a2.atoms) {
                        let nx: Vec<char> = needle_chars(x).iter().map(|&c| if c == letter { u } else { c }).collect();
                        let ny = needle_chars(y);
                        if x.negative != y.negative || x.kind != y.kind {
                            diff = Some(format!("kind/negation differ: {x:?} vs {y:?}"));
                        } else if nx != ny {
                            diff = Some(format!("needle {:?} vs {:?}", show_chars(&nx), show_chars(&ny)));
                        } else if atom_flags(x) != atom_flags(y) {
                            diff = Some(format!("flags differ: {x:?} vs {y:?}"));
                        }
                    }
                }
                if let Some(diff) = diff {
                    let what: String = diff.split_whitespace().take(1).collect();
                    rep.violation(
                        "C14",
                        "ascii-and-non-ascii-parse-differently",
                        format!("backslash={} {what}", p.contains('\\')),
                        jobj! {"ascii_pattern" => show_chars(&p.chars().collect::<Vec<_>>()), "substituted" => show_chars(&p2.chars().collect::<Vec<_>>()),
                               "settings" => settings.clone(), "difference" => diff, "case_id" => case_id.clone()},
                    );
                }
            }
            // (c) escaped literal text parses to one fuzzy atom with exactly that text
            _ => {
                let len = rng.range(1, 8);
                let nonascii = rng.coin();
                let mut t: Vec<char> = Vec::new();
                for _ in 0..len {
                    let c = match rng.below(8) {
                        0..=3 => *rng.pick(LETTERS),
                        4 => ' ',
                        5 => *rng.pick(&['!', '^', '\'', '$']),
                        _ => {
                            if nonascii {
                                *rng.pick(NONASCII)
                            } else {
                                *rng.pick(LETTERS)
                            }
                        }
                    };
                    t.push(c);
                    if nonascii && rng.chance(1, 5) {
                        t.push(*rng.pick(JOINING));
                    }
                    if nonascii && rng.chance(1, 6) {
                        t.push(*rng.pick(SYNTAX_ALIASES));
                    }
                }
                let esc = escape_literal(&t);
                if syntax_inside_cluster(&esc) || syntax_inside_cluster(&t.iter().collect::<String>()) {
                    rep.count("c14.syntax-inside-a-cluster-not-judged");
                    return;
                }
                let real = Pattern::parse(&esc, CaseMatching::Respect, Normalization::Never);
                rep.count("c14.escape-roundtrip");
                let mut h = Hasher64::new();
                h.add_chars(&t);
                h.add(77);
                rep.distinct(h.finish());
                let ok = real.atoms.len() == 1
                    && !real.atoms[0].negative
                    && real.atoms[0].kind == AtomKind::Fuzzy
                    // "exactly that text": as the crate holds any text (one character per extended grapheme cluster, C17)
                    && needle_chars(&real.atoms[0]) == grapheme_firsts(&t.iter().collect::<String>());
                if !ok {
                    rep.violation(
                        "C14",
                        "escaped-literal-does-not-roundtrip",
                        format!("nonascii={} space={}", t.iter().any(|c| !c.is_ascii()), t.contains(&' ')),
                        jobj! {"literal" => show_chars(&t), "escaped" => show_chars(&esc.chars().collect::<Vec<_>>()),
                               "atoms" => format!("{:?}", real.atoms), "case_id" => case_id.clone()},
                    );
                }
            }
        }
        });
    }
    let _ = J::Null;
}
