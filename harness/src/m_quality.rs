//! C04: ranking quality bounds of the optimal fuzzy matcher.
use nucleo_matcher::Matcher;

use crate::jobj;
use crate::json::{show_chars, J};
use crate::refm::*;
use crate::report::Report;
use crate::rng::{mix, Hasher64, Rng};
use crate::ugen::*;

pub struct Opts {
    pub seed: u64,
    pub shard: u64,
    pub cases: u64,
    pub time_limit: f64,
    pub replay: Option<u64>,
}

fn gen(rng: &mut Rng, pools: &Pools, idx: u64) -> (Vec<char>, Vec<char>, RCfg, &'static str) {
    let mut cfg = gen_cfg(rng, false);
    // emphasis on the path configurations (delimiter bonus 9 > whitespace bonus 8)
    if rng.coin() {
        cfg.bonus = if rng.coin() {
            BonusCfg::MatchPaths
        } else {
            BonusCfg::SetMatchPaths
        };
    }
    let mid = idx % 50 == 7;
    let profile = if rng.chance(1, 4) {
        Profile::ScoreUnicode
    } else {
        Profile::ScoreAscii
    };
    let mut alphabet = gen_alphabet(rng, pools, profile);
    if rng.chance(1, 4) {
        // first / last letters and digits and the characters next to the class boundaries
        let k = rng.range(2, 6);
        alphabet = (0..k).map(|_| *rng.pick(SCORE_WIDE) as char).collect();
    } else if rng.chance(1, 3) {
        alphabet = "a b/_-.A1".chars().collect();
        if rng.coin() {
            rng.shuffle(&mut alphabet);
            alphabet.truncate(rng.range(2, 5));
        }
    }
    let (hl, max_n, kind) = if mid {
        (rng.range(65, 1500), 60, "mid")
    } else {
        match rng.below(10) {
            0..=4 => (rng.range(1, 10), 4, "tiny"),
            5..=8 => (rng.range(5, 32), 8, "small"),
            _ => (rng.range(20, 64), 8, "small"),
        }
    };
    let hay = gen_text(rng, &alphabet, hl);
    let (mut needle, _) = gen_needle(rng, &hay, &alphabet, &cfg, max_n);
    if mid {
        // keep within the matrix limits most of the time
        let max_cells = 100 * 1024;
        if needle.len() * hay.len() > max_cells && rng.chance(9, 10) {
            needle.truncate(max_cells / hay.len());
        }
    }
    if rng.chance(1, 6) && !hay.is_empty() {
        // one character needle that occurs
        let hn = ref_norm_all(&hay, &cfg);
        needle = vec![*rng.pick(&hn)];
        normalize_needle(&mut needle, &cfg);
    }
    (hay, needle, cfg, kind)
}

pub fn run(opts: &Opts, pools: &Pools, rep: &mut Report) {
    let mut matcher = crate::m_match::initial_matcher(opts.seed, opts.shard, 0);
    let range: Box<dyn Iterator<Item = u64>> = match opts.replay {
        Some(i) => Box::new(i..i + 1),
        None => Box::new(0..opts.cases),
    };
    for idx in range {
        if idx % 128 == 0 && rep.elapsed() > opts.time_limit {
            rep.note(format!("time limit reached after {idx} cases"));
            break;
        }
        let mut rng = Rng::new(mix(&[opts.seed, opts.shard, idx, 4]));
        if idx % 2048 == 2047 {
            // constructed with one configuration, others are assigned in place afterwards
            matcher = crate::m_match::initial_matcher(opts.seed, opts.shard, idx / 2048 + 1);
        }
        let (hay, needle, cfg, kind) = gen(&mut rng, pools, idx);
        if needle.iter().any(|&c| ref_norm(c, &cfg) != c) {
            rep.count("skipped.needle-not-a-fixed-point");
            continue;
        }
        let Some(b) = bonus_row(&hay, &cfg) else {
            rep.count("skipped.ambiguous-class");
            continue;
        };
        rep.count("cases");
        rep.count(&format!("kind.{kind}"));
        let hn = ref_norm_all(&hay, &cfg);
        let opt = opt_score(&b, &hn, &needle);
        let naive = naive_recurrence(&b, &hn, &needle);
        if hay.len() <= 10 && needle.len() <= 5 {
            // oracle self test against literal enumeration
            let brute = brute_opt(&b, &hn, &needle);
            rep.count("selftest.brute-vs-dp");
            if brute != opt {
                rep.inconclusive(format!(
                    "oracle self test failed: brute {brute:?} != dp {opt:?} for hay {:?} needle {:?} {}",
                    show_chars(&hay),
                    show_chars(&needle),
                    cfg.show()
                ));
                continue;
            }
        }
        if let (Some(o), Some(n)) = (opt, naive) {
            if n > o {
                rep.inconclusive(format!(
                    "oracle self test failed: naive recurrence {n} above optimum {o} for hay {:?} needle {:?}",
                    show_chars(&hay),
                    show_chars(&needle)
                ));
                continue;
            }
            if n == o {
                rep.count("oracle.naive-equals-optimum");
            } else {
                rep.count("oracle.naive-below-optimum");
            }
        }
        let hay_t = Text::new(hay.clone());
        let needle_t = Text::new(needle.clone());
        let case_json = |extra: J| {
            jobj! {
                "hay" => show_chars(&hay), "needle" => show_chars(&needle), "cfg" => cfg.show(),
                "kind" => kind, "case_id" => format!("{}:{}:{}", opts.seed, opts.shard, idx), "info" => extra,
            }
        };
        if opt.is_some() && !needle.is_empty() && needle.len() < hay.len() {
            let mut h = Hasher64::new();
            h.add_chars(&hay);
            h.add_chars(&needle);
            h.add(cfg.index() as u64);
            rep.distinct(h.finish());
        }
        if rep.want_sample() && idx % 11 == 5 {
            rep.sample(case_json(jobj! {"optimum" => opt, "recurrence" => naive}));
        }
        let h_reprs: &[bool] = if hay_t.ascii { &[true, false] } else { &[false] };
        let n_reprs: &[bool] = if needle_t.ascii { &[true] } else { &[false] };
        for &hr in h_reprs {
            for &nr in n_reprs {
                let h = hay_t.view(hr);
                let n = needle_t.view(nr);
                let arm = format!("{}{}", if h.is_ascii() { 'A' } else { 'U' }, if n.is_ascii() { 'A' } else { 'U' });
                matcher.config = cfg.real();
                let m = &mut matcher;
                let Ok(real) = caught(|| m.fuzzy_match(h, n)) else {
                    rep.count("panics");
                    matcher = Matcher::default();
                    continue;
                };
                let mut idxs = Vec::new();
                let m = &mut matcher;
                let Ok(real_i) = caught(|| m.fuzzy_indices(h, n, &mut idxs)) else {
                    rep.count("panics");
                    matcher = Matcher::default();
                    continue;
                };
                rep.add("calls", 2);
                if needle.is_empty() {
                    continue;
                }
                for (got, entry) in [(real, "fuzzy_match"), (real_i, "fuzzy_indices")] {
                    let entry = format!("{entry}/{arm}");
                    match (got, opt) {
                        (Some(g), Some(o)) => {
                            let g = g as u64;
                            rep.count("c04.compared");
                            if g > o {
                                rep.violation(
                                    "C04",
                                    "above-optimum",
                                    entry.clone(),
                                    case_json(jobj! {"got" => g, "optimum" => o}),
                                );
                            }
                            if let Some(nv) = naive {
                                if g < nv {
                                    rep.violation(
                                        "C04",
                                        "below-recurrence",
                                        format!("{entry}|needle1={}|path={}", needle.len() == 1, cfg.is_path()),
                                        case_json(jobj! {"got" => g, "recurrence" => nv, "optimum" => o}),
                                    );
                                } else if g == nv {
                                    rep.count("c04.equals-recurrence");
                                } else {
                                    rep.count("c04.above-recurrence");
                                }
                            }
                            if needle.len() == 1 {
                                rep.count("c04.single-char");
                                if g != o {
                                    rep.violation(
                                        "C04",
                                        "single-char-not-best",
                                        format!("{entry}|path={}", cfg.is_path()),
                                        case_json(jobj! {"got" => g, "optimum" => o}),
                                    );
                                }
                            }
                            if g == o {
                                rep.count("c04.equals-optimum");
                            }
                        }
                        (None, None) => rep.count("c04.both-reject"),
                        _ => rep.count("c04.relation-disagrees(C01)"),
                    }
                }
                // prefix preference never lowers a score and raises it by at most 8
                if let Some(base) = real {
                    let mut cfgp = cfg;
                    cfgp.prefer_prefix = true;
                    matcher.config = cfgp.real();
                    let m = &mut matcher;
                    let Ok(pp) = caught(|| m.fuzzy_match(h, n)) else {
                        rep.count("panics");
                        matcher = Matcher::default();
                        continue;
                    };
                    let mut idxs2 = Vec::new();
                    let m = &mut matcher;
                    let Ok(pp_i) = caught(|| m.fuzzy_indices(h, n, &mut idxs2)) else {
                        rep.count("panics");
                        matcher = Matcher::default();
                        continue;
                    };
                    rep.count("c04.prefix-compared");
                    for (p, entry) in [(pp, "fuzzy_match"), (pp_i, "fuzzy_indices")] {
                        match p {
                            Some(p) if p >= base && (p as u64) <= base as u64 + MAX_PREFIX_BONUS => {
                                if p > base {
                                    rep.count("c04.prefix-raised");
                                }
                            }
                            other => {
                                // the recurrence is not exactly optimal: a shifted first row can make
                                // it find a better alignment than without the bonus (see DESIGN.md)
                                // classify: is the value exactly what the documented recurrence yields
                                // once the first row carries the prefix bonus?
                                let start = hn.iter().position(|&c| c == needle[0]).unwrap_or(0);
                                let modelled = naive_recurrence_with(&b, &hn, &needle, &prefix_row_bonus(hn.len(), start));
                                let explained = other.map(|p| p as u64) == modelled
                                    && opt.map_or(false, |o| other.unwrap_or(0) as u64 <= o + MAX_PREFIX_BONUS);
                                let class = match (other, explained) {
                                    (Some(p), true) if p > base => "recurrence-with-prefix-row/raised-by-more-than-8",
                                    (Some(p), true) if p < base => "recurrence-with-prefix-row/lowered",
                                    (Some(p), false) if p < base => "unexplained/lowered",
                                    (None, _) => "unexplained/match-lost",
                                    _ => "unexplained/raised",
                                };
                                rep.violation(
                                    "C04",
                                    "prefix-preference-out-of-range",
                                    format!("{class}|{entry}/{arm}"),
                                    case_json(jobj! {"class" => class, "without" => base, "with" => other, "optimum" => opt}),
                                )
                            }
                        }
                    }
                }
            }
        }
    }
}
