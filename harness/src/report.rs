//! Per-process result collection. Every monitor binary writes one JSON result
//! file; the python driver aggregates the shards into the evidence file.
use std::collections::{BTreeMap, HashSet};
use std::time::Instant;

use crate::json::J;

pub const MAX_VIOLATIONS: usize = 40;
pub const MAX_SAMPLES: usize = 6;
pub const MAX_DISTINCT: usize = 4_000_000;
pub const DUMP_DISTINCT: usize = 250_000;

pub struct Violation {
    pub property: String,
    pub kind: String,
    /// canonical signature used for de-duplication and known-finding matching
    pub sig: String,
    pub detail: J,
}

pub struct Report {
    pub suite: String,
    pub counters: BTreeMap<String, u64>,
    pub samples: Vec<J>,
    pub violations: Vec<Violation>,
    pub violation_count: u64,
    seen_sigs: HashSet<String>,
    distinct: HashSet<u64>,
    pub distinct_overflow: bool,
    pub inconclusive: Vec<String>,
    pub notes: Vec<String>,
    started: Instant,
}

impl Report {
    pub fn new(suite: &str) -> Report {
        Report {
            suite: suite.to_owned(),
            counters: BTreeMap::new(),
            samples: Vec::new(),
            violations: Vec::new(),
            violation_count: 0,
            seen_sigs: HashSet::new(),
            distinct: HashSet::new(),
            distinct_overflow: false,
            inconclusive: Vec::new(),
            notes: Vec::new(),
            started: Instant::now(),
        }
    }

    #[inline]
    pub fn count(&mut self, key: &str) {
        self.add(key, 1)
    }

    #[inline]
    pub fn add(&mut self, key: &str, n: u64) {
        if let Some(v) = self.counters.get_mut(key) {
            *v += n;
        } else {
            self.counters.insert(key.to_owned(), n);
        }
    }

    pub fn max(&mut self, key: &str, n: u64) {
        let e = self.counters.entry(key.to_owned()).or_insert(0);
        if n > *e {
            *e = n
        }
    }

    pub fn get(&self, key: &str) -> u64 {
        self.counters.get(key).copied().unwrap_or(0)
    }

    /// records a distinct non-trivial case by hash
    #[inline]
    pub fn distinct(&mut self, hash: u64) {
        if self.distinct.len() < MAX_DISTINCT {
            self.distinct.insert(hash);
        } else {
            self.distinct_overflow = true;
        }
    }

    pub fn distinct_len(&self) -> usize {
        self.distinct.len()
    }

    pub fn sample(&mut self, s: J) {
        if self.samples.len() < MAX_SAMPLES {
            self.samples.push(s)
        }
    }

    pub fn want_sample(&self) -> bool {
        self.samples.len() < MAX_SAMPLES
    }

    pub fn violation(&mut self, property: &str, kind: &str, sig: String, detail: J) {
        self.violation_count += 1;
        let key = format!("{property}|{kind}|{sig}");
        if self.seen_sigs.contains(&key) {
            return;
        }
        if self.violations.len() >= MAX_VIOLATIONS {
            return;
        }
        self.seen_sigs.insert(key);
        self.violations.push(Violation {
            property: property.to_owned(),
            kind: kind.to_owned(),
            sig,
            detail,
        });
    }

    /// files everything found so far under one property (a workload that several checks share reports under the id of the
    /// check that runs it; the original id stays in the kind)
    pub fn relabel(&mut self, property: &str) {
        for v in self.violations.iter_mut() {
            if v.property != property {
                v.kind = format!("{} (as seen by the {} workload)", v.kind, v.property);
                v.property = property.to_owned();
            }
        }
    }

    pub fn inconclusive(&mut self, reason: impl Into<String>) {
        let reason = reason.into();
        if !self.inconclusive.contains(&reason) {
            self.inconclusive.push(reason)
        }
    }

    pub fn note(&mut self, note: impl Into<String>) {
        let note = note.into();
        if self.notes.len() < 50 && !self.notes.contains(&note) {
            self.notes.push(note)
        }
    }

    pub fn elapsed(&self) -> f64 {
        self.started.elapsed().as_secs_f64()
    }

    pub fn to_json(&self) -> J {
        let counters = J::Obj(
            self.counters
                .iter()
                .map(|(k, v)| (k.clone(), J::UInt(*v)))
                .collect(),
        );
        let violations = J::Arr(
            self.violations
                .iter()
                .map(|v| {
                    J::Obj(vec![
                        ("property".into(), J::Str(v.property.clone())),
                        ("kind".into(), J::Str(v.kind.clone())),
                        ("sig".into(), J::Str(v.sig.clone())),
                        ("detail".into(), v.detail.clone()),
                    ])
                })
                .collect(),
        );
        J::Obj(vec![
            ("suite".into(), J::Str(self.suite.clone())),
            ("counters".into(), counters),
            ("distinct".into(), J::UInt(self.distinct.len() as u64)),
            ("distinct_overflow".into(), J::Bool(self.distinct_overflow)),
            ("samples".into(), J::Arr(self.samples.clone())),
            ("violation_count".into(), J::UInt(self.violation_count)),
            ("violations".into(), violations),
            (
                "inconclusive".into(),
                J::Arr(self.inconclusive.iter().map(|s| J::Str(s.clone())).collect()),
            ),
            (
                "notes".into(),
                J::Arr(self.notes.iter().map(|s| J::Str(s.clone())).collect()),
            ),
            ("wall_s".into(), J::Float(self.elapsed())),
        ])
    }

    pub fn write(&self, path: &str) {
        let s = self.to_json().to_string();
        if path == "-" {
            println!("{s}");
        } else {
            std::fs::write(path, s).expect("cannot write result file");
            // distinct case hashes (capped) so that the driver can de-duplicate across shards
            if let Some(base) = path.strip_suffix(".json") {
                let mut bytes = Vec::with_capacity(8 * self.distinct.len().min(DUMP_DISTINCT));
                for h in self.distinct.iter().take(DUMP_DISTINCT) {
                    bytes.extend_from_slice(&h.to_le_bytes());
                }
                let _ = std::fs::write(format!("{base}.hashes"), bytes);
            }
        }
    }
}

/// Simple `--key value` argument parser.
pub struct Args {
    pairs: Vec<(String, String)>,
}

impl Args {
    pub fn parse() -> Args {
        let mut pairs = Vec::new();
        let mut it = std::env::args().skip(1);
        while let Some(a) = it.next() {
            if let Some(k) = a.strip_prefix("--") {
                if let Some((k, v)) = k.split_once('=') {
                    pairs.push((k.to_owned(), v.to_owned()));
                } else {
                    let v = it.next().unwrap_or_default();
                    pairs.push((k.to_owned(), v));
                }
            }
        }
        Args { pairs }
    }
    pub fn get(&self, key: &str) -> Option<&str> {
        self.pairs
            .iter()
            .rev()
            .find(|(k, _)| k == key)
            .map(|(_, v)| v.as_str())
    }
    pub fn str(&self, key: &str, default: &str) -> String {
        self.get(key).unwrap_or(default).to_owned()
    }
    pub fn u64(&self, key: &str, default: u64) -> u64 {
        self.get(key).and_then(|v| v.parse().ok()).unwrap_or(default)
    }
    pub fn f64(&self, key: &str, default: f64) -> f64 {
        self.get(key).and_then(|v| v.parse().ok()).unwrap_or(default)
    }
}
