//! Seeded generators for haystacks, needles and configurations.
use nucleo_matcher::chars;

use crate::refm::{ref_class, ref_norm, BonusCfg, RCfg};
use crate::rng::Rng;

pub struct Pools {
    /// every scalar value that case folding or Latin normalization moves
    pub moved: Vec<char>,
    /// lower case letters that still fold (final sigma, long s, micro sign ...)
    pub lower_folding: Vec<char>,
    /// curated non-ASCII alphabet with unambiguous character classes
    pub curated: Vec<char>,
}

// includes the characters adjacent to every ASCII class boundary (@ A..Z [ ` a..z { / 0..9 : DEL)
pub const ASCII_POOL: &[u8] = b"abcxyzABCXYZ0129 /_-.:,;|\t\\$^'!@[`{~]}\x7f\0\x01\x1f";
/// boundary rich pool for score oracles: first / last letters and digits, their neighbours
pub const SCORE_WIDE: &[u8] = b"azAZ09 /_-.:@[`{\tbB";
pub const SCORE_ASCII: &[u8] = b"abAB1 /_-.:";
pub const CURATED: &[char] = &[
    // lower
    '\u{e9}', '\u{fc}', '\u{f1}', '\u{3bb}', '\u{434}', '\u{436}', '\u{561}',
    // upper
    '\u{c9}', '\u{dc}', '\u{39b}', '\u{414}', '\u{416}', '\u{531}',
    // letter
    '\u{4e2d}', '\u{6587}', '\u{3042}', '\u{627}', '\u{5d1}',
    // number
    '\u{663}', '\u{96b}',
    // white
    '\u{a0}', '\u{3000}', '\u{2003}',
    // non word
    '\u{2014}', '\u{ab}', '\u{20ac}', '\u{2192}',
];

impl Pools {
    pub fn new() -> Pools {
        let mut moved = Vec::new();
        let mut lower_folding = Vec::new();
        for u in 0..=0x10FFFFu32 {
            let Some(c) = char::from_u32(u) else { continue };
            let f = chars::to_lower_case(c);
            let n = chars::normalize(c);
            if f != c || n != c {
                moved.push(c);
            }
            if f != c && c.is_lowercase() {
                lower_folding.push(c);
            }
        }
        let any = RCfg {
            ignore_case: true,
            normalize: true,
            bonus: BonusCfg::Default,
            prefer_prefix: false,
        };
        let curated: Vec<char> = CURATED
            .iter()
            .copied()
            .filter(|&c| ref_class(c, &any).is_some())
            .collect();
        Pools {
            moved,
            lower_folding,
            curated,
        }
    }
}

impl Default for Pools {
    fn default() -> Self {
        Self::new()
    }
}

pub fn gen_cfg(rng: &mut Rng, allow_prefix: bool) -> RCfg {
    RCfg {
        ignore_case: rng.coin(),
        normalize: rng.coin(),
        bonus: match rng.below(4) {
            0 | 1 => BonusCfg::Default,
            2 => BonusCfg::MatchPaths,
            _ => BonusCfg::SetMatchPaths,
        },
        prefer_prefix: allow_prefix && rng.chance(1, 4),
    }
}

#[derive(Clone, Copy, Debug, PartialEq, Eq)]
pub enum Profile {
    /// 2-6 symbols from the ASCII pool
    TinyAscii,
    /// boundary rich ASCII alphabet for score oracles
    ScoreAscii,
    /// ScoreAscii + curated non-ASCII chars (classes unambiguous)
    ScoreUnicode,
    /// characters moved by normalization / folding and their images (class irrelevant)
    Moved,
    /// few ASCII symbols + a handful of arbitrary scalar values
    Wild,
}

/// builds an alphabet for one case
pub fn gen_alphabet(rng: &mut Rng, pools: &Pools, profile: Profile) -> Vec<char> {
    let mut out = Vec::new();
    match profile {
        Profile::TinyAscii => {
            let k = rng.range(2, 6);
            for _ in 0..k {
                out.push(*rng.pick(ASCII_POOL) as char);
            }
        }
        Profile::ScoreAscii if rng.chance(1, 3) => {
            let k = rng.range(3, 7);
            for _ in 0..k {
                out.push(*rng.pick(SCORE_WIDE) as char);
            }
        }
        Profile::ScoreAscii => {
            out.extend(SCORE_ASCII.iter().map(|&b| b as char));
            if rng.coin() {
                // shrink so that matches are frequent
                rng.shuffle(&mut out);
                out.truncate(rng.range(3, 7));
            }
        }
        Profile::ScoreUnicode => {
            let k = rng.range(2, 5);
            for _ in 0..k {
                out.push(*rng.pick(SCORE_ASCII) as char);
            }
            let k = rng.range(1, 4);
            for _ in 0..k {
                out.push(*rng.pick(&pools.curated));
            }
        }
        Profile::Moved => {
            let k = rng.range(1, 3);
            for _ in 0..k {
                let c = if rng.chance(1, 3) && !pools.lower_folding.is_empty() {
                    *rng.pick(&pools.lower_folding)
                } else {
                    *rng.pick(&pools.moved)
                };
                out.push(c);
                // add the images so that needles can hit them
                out.push(chars::to_lower_case(c));
                out.push(chars::normalize(c));
                out.push(chars::to_lower_case(chars::normalize(c)));
            }
            let k = rng.range(1, 3);
            for _ in 0..k {
                out.push(*rng.pick(b"abxAB 1/-") as char);
            }
        }
        Profile::Wild => {
            let k = rng.range(1, 3);
            for _ in 0..k {
                out.push(*rng.pick(ASCII_POOL) as char);
            }
            // characters that alias an ASCII character of this alphabet when truncated to 8 or 16 bits
            if rng.coin() {
                let b = out[rng.below(out.len())] as u32;
                let alias = match rng.below(4) {
                    0 => b + 0x100 * rng.range(1, 0xd7) as u32,
                    1 => b + 0x10000 * rng.range(1, 16) as u32,
                    2 => b + 0x400,
                    _ => b + 0x4e00,
                };
                if let Some(c) = char::from_u32(alias) {
                    out.push(c);
                }
            }
            let k = rng.range(1, 3);
            for _ in 0..k {
                loop {
                    let u = match rng.below(4) {
                        0 => rng.below(0x800),
                        1 => rng.below(0x3000),
                        2 => rng.below(0x10000),
                        _ => rng.below(0x110000),
                    } as u32;
                    if let Some(c) = char::from_u32(u) {
                        if c != '\u{b}' {
                            out.push(c);
                            break;
                        }
                    }
                }
            }
        }
    }
    out.retain(|&c| c != '\u{b}');
    if out.is_empty() {
        out.push('a')
    }
    out
}

pub fn gen_text(rng: &mut Rng, alphabet: &[char], len: usize) -> Vec<char> {
    (0..len).map(|_| *rng.pick(alphabet)).collect()
}

/// normalizes a needle so that it is "already normalized" for `cfg`
pub fn normalize_needle(n: &mut [char], cfg: &RCfg) {
    for c in n.iter_mut() {
        // twice: robust even if a projection were not idempotent (that is C16's business)
        *c = ref_norm(ref_norm(*c, cfg), cfg);
    }
}

#[derive(Clone, Copy, Debug, PartialEq, Eq)]
pub enum NeedleMode {
    Subsequence,
    Random,
    Substring,
    Long,
}

/// derives a needle for `hay` (already normalized for `cfg`)
pub fn gen_needle(
    rng: &mut Rng,
    hay: &[char],
    alphabet: &[char],
    cfg: &RCfg,
    max_len: usize,
) -> (Vec<char>, NeedleMode) {
    let hn: Vec<char> = hay.iter().map(|&c| ref_norm(c, cfg)).collect();
    let r = rng.below(100);
    let (mut needle, mode) = if r < 55 && !hay.is_empty() {
        // random subsequence
        let k = rng.range(0, max_len.min(hay.len()));
        let mut pos: Vec<usize> = (0..hay.len()).collect();
        rng.shuffle(&mut pos);
        pos.truncate(k);
        pos.sort_unstable();
        (pos.iter().map(|&p| hn[p]).collect::<Vec<_>>(), NeedleMode::Subsequence)
    } else if r < 75 && !hay.is_empty() {
        let k = rng.range(1, max_len.min(hay.len()).max(1));
        let start = rng.below(hay.len() - k + 1);
        (hn[start..start + k].to_vec(), NeedleMode::Substring)
    } else if r < 95 {
        let k = rng.range(0, max_len);
        (gen_text(rng, alphabet, k), NeedleMode::Random)
    } else {
        let k = hay.len() + rng.below(3);
        if rng.coin() {
            let mut n = hn.clone();
            n.extend(gen_text(rng, alphabet, k - hay.len()));
            (n, NeedleMode::Long)
        } else {
            (gen_text(rng, alphabet, k), NeedleMode::Long)
        }
    };
    // perturbations so that near misses occur
    if !needle.is_empty() && mode != NeedleMode::Random {
        match rng.below(10) {
            0 => {
                let i = rng.below(needle.len());
                needle[i] = *rng.pick(alphabet);
            }
            1 if needle.len() >= 2 => {
                let i = rng.below(needle.len() - 1);
                needle.swap(i, i + 1);
            }
            2 => {
                let i = rng.below(needle.len() + 1);
                needle.insert(i, *rng.pick(alphabet));
            }
            _ => (),
        }
    }
    normalize_needle(&mut needle, cfg);
    (needle, mode)
}
