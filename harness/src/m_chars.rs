//! C16: character normalization is a coherent, idempotent projection.
//! Table part: exhaustive over all scalar values against independent expected data.
//! Coherence part: probe matches through every matcher path.
use std::collections::HashMap;

use nucleo_matcher::chars;

use crate::jobj;
use crate::json::show_chars;
use crate::m_match::{eval_case, Case, Eval, Props};
use crate::refm::*;
use crate::report::Report;
use crate::rng::{mix, Rng};
use crate::ugen::normalize_needle;

pub struct Opts {
    pub seed: u64,
    pub shard: u64,
    pub shards: u64,
    pub time_limit: f64,
    pub data_dir: String,
    /// per-mille of the unmoved characters that get coherence probes (1000 = all)
    pub sample_permille: u64,
    pub replay: Option<u64>,
}

fn load_tsv(path: &str) -> Result<Vec<(u32, String)>, String> {
    let text = std::fs::read_to_string(path).map_err(|e| format!("{path}: {e}"))?;
    let mut out = Vec::new();
    for line in text.lines() {
        if line.starts_with('#') || line.is_empty() {
            continue;
        }
        let (a, b) = line.split_once('\t').ok_or_else(|| format!("bad line {line:?}"))?;
        out.push((u32::from_str_radix(a, 16).map_err(|e| e.to_string())?, b.to_owned()));
    }
    Ok(out)
}

pub fn in_blocks(c: char) -> bool {
    matches!(c as u32, 0xA0..=0x29F | 0x1E00..=0x1EFF | 0x2070..=0x209F)
}

pub fn table_part(opts: &Opts, rep: &mut Report) {
    let fold = match load_tsv(&format!("{}/casefold_simple.tsv", opts.data_dir)) {
        Ok(v) => v,
        Err(e) => {
            rep.inconclusive(format!("expected data unreadable: {e}"));
            return;
        }
    };
    let nfkd = match load_tsv(&format!("{}/nfkd_ascii_base.tsv", opts.data_dir)) {
        Ok(v) => v,
        Err(e) => {
            rep.inconclusive(format!("expected data unreadable: {e}"));
            return;
        }
    };
    if fold.len() < 1400 || nfkd.len() < 400 {
        rep.inconclusive("expected data suspiciously small");
        return;
    }
    let fold: HashMap<u32, u32> = fold
        .into_iter()
        .map(|(a, b)| (a, u32::from_str_radix(&b, 16).unwrap_or(0)))
        .collect();
    let nfkd: HashMap<u32, char> = nfkd
        .into_iter()
        .map(|(a, b)| (a, b.chars().next().unwrap_or('?')))
        .collect();
    let mut scalars = 0u64;
    for u in 0..=0x10FFFFu32 {
        let Some(c) = char::from_u32(u) else { continue };
        scalars += 1;
        let f = chars::to_lower_case(c);
        let n = chars::normalize(c);
        let hex = format!("U+{u:04X}");
        let expected_fold = fold.get(&u).and_then(|&t| char::from_u32(t)).unwrap_or(c);
        if f != expected_fold {
            rep.violation(
                "C16",
                "case-folding-differs-from-unicode",
                hex.clone(),
                jobj! {"char" => hex.clone(), "got" => format!("U+{:04X}", f as u32), "unicode_simple_folding" => format!("U+{:04X}", expected_fold as u32)},
            );
        }
        if chars::to_lower_case(f) != f {
            rep.violation("C16", "case-folding-not-idempotent", hex.clone(), jobj! {"char" => hex.clone()});
        }
        if chars::normalize(n) != n {
            rep.violation("C16", "normalization-not-idempotent", hex.clone(), jobj! {"char" => hex.clone()});
        }
        if !in_blocks(c) && n != c {
            rep.violation(
                "C16",
                "normalization-outside-documented-blocks",
                hex.clone(),
                jobj! {"char" => hex.clone(), "got" => format!("U+{:04X}", n as u32)},
            );
        }
        if let Some(&base) = nfkd.get(&u) {
            rep.count("c16.nfkd-expectations");
            if n != base {
                rep.violation(
                    "C16",
                    "normalization-contradicts-nfkd",
                    hex.clone(),
                    jobj! {"char" => hex.clone(), "got" => n.to_string(), "nfkd_base" => base.to_string()},
                );
            }
        }
        if c.is_ascii() {
            let exp = if c.is_ascii_uppercase() { c.to_ascii_lowercase() } else { c };
            if n != c || f != exp {
                rep.violation("C16", "ascii-touched", hex.clone(), jobj! {"char" => hex.clone()});
            }
        }
        if f != c {
            rep.count("c16.folding-sources");
        }
        if n != c {
            rep.count("c16.normalized-chars");
        }
    }
    // the two maps are functions of the character alone: asked again right after a different character whose code point
    // agrees with it in the low 8 / 16 bits (and in other orders than ascending), the answer is the same
    let mut order_checked = 0u64;
    let mut mismatch: Option<(u32, u32, char, char)> = None;
    'outer: for u in (0..=0x10FFFFu32).rev() {
        let Some(c) = char::from_u32(u) else { continue };
        for alias in [u & 0xFFFF, u & 0xFF, (u & 0xFFFF) | 0x10000, u ^ 0x20, u.wrapping_add(0x100) & 0x1FFFF] {
            let Some(b) = char::from_u32(alias) else { continue };
            if b == c {
                continue;
            }
            let _ = (chars::to_lower_case(c), chars::normalize(c));
            let (f, n) = (chars::to_lower_case(b), chars::normalize(b));
            order_checked += 1;
            let expected_fold = fold.get(&alias).and_then(|&t| char::from_u32(t)).unwrap_or(b);
            if f != expected_fold {
                mismatch = Some((u, alias, f, expected_fold));
                break 'outer;
            }
            if let Some(&base) = nfkd.get(&alias) {
                if n != base {
                    mismatch = Some((u, alias, n, base));
                    break 'outer;
                }
            }
        }
    }
    rep.add("c16.lookups-right-after-an-aliasing-character", order_checked);
    if let Some((u, alias, got, want)) = mismatch {
        rep.violation(
            "C16",
            "character-map-depends-on-earlier-lookups",
            "alias".into(),
            jobj! {"looked_up_first" => format!("U+{u:04X}"), "then" => format!("U+{alias:04X}"), "got" => format!("U+{:04X}", got as u32), "expected" => format!("U+{:04X}", want as u32)},
        );
    }
    rep.add("c16.scalars-enumerated", scalars);
    rep.add("c16.table-exhaustive", 1);
}

pub fn coherence_part(opts: &Opts, rep: &mut Report) {
    let props = Props {
        c01: true,
        c02: true,
        c03: false,
        c05: true,
        c10: false,
    };
    let mut matcher = crate::m_match::initial_matcher(opts.seed, opts.shard, 0);
    let fill: [char; 3] = ['x', '-', 'q'];
    let range: Box<dyn Iterator<Item = u32>> = match opts.replay {
        Some(u) => Box::new(u as u32..u as u32 + 1),
        None => Box::new(0..=0x10FFFFu32),
    };
    for u in range {
        if (u as u64) % opts.shards != opts.shard && opts.replay.is_none() {
            continue;
        }
        let Some(c) = char::from_u32(u) else { continue };
        if c == '\u{b}' {
            continue;
        }
        if u % 4096 == 0 && rep.elapsed() > opts.time_limit {
            rep.note(format!("time limit reached at U+{u:04X}"));
            rep.inconclusive("coherence sweep did not finish within its time limit");
            break;
        }
        let moved = chars::to_lower_case(c) != c || chars::normalize(c) != c;
        let mut rng = Rng::new(mix(&[opts.seed, u as u64, 16]));
        if !moved && opts.sample_permille < 1000 && (rng.below(1000) as u64) >= opts.sample_permille {
            continue;
        }
        rep.count("c16.chars-probed");
        rep.distinct(u as u64);
        if moved {
            rep.count("c16.moved-chars-probed");
        }
        for ci in 0..4usize {
            let cfg = RCfg {
                ignore_case: ci & 1 != 0,
                normalize: ci & 2 != 0,
                bonus: BonusCfg::Default,
                prefer_prefix: false,
            };
            let img = ref_norm(c, &cfg);
            for pos in 0..3usize {
                // first, inner, last
                let mut hay: Vec<char> = vec![fill[0], fill[1], fill[2], fill[0]];
                let p = [0usize, 2, 3][pos];
                hay[p] = c;
                let hn = ref_norm_all(&hay, &cfg);
                let mut needles: Vec<Vec<char>> = vec![vec![img]];
                // two char needle with a gap or neighbour (drives the optimal / greedy paths)
                if p + 1 < hay.len() {
                    needles.push(vec![img, hn[hay.len() - 1]]);
                } else {
                    needles.push(vec![hn[0], img]);
                }
                // contiguous neighbour (substring path) and the whole text (exact path)
                if p > 0 {
                    needles.push(vec![hn[p - 1], img]);
                }
                needles.push(hn.clone());
                // anchored: prefix / postfix of the text containing the char
                needles.push(hn[..p + 1].to_vec());
                needles.push(hn[p..].to_vec());
                for mut needle in needles {
                    normalize_needle(&mut needle, &cfg);
                    if needle.iter().any(|&x| ref_norm(x, &cfg) != x) {
                        rep.count("skipped.needle-not-a-fixed-point");
                        continue;
                    }
                    let case = Case {
                        hay: Text::new(hay.clone()),
                        needle: Text::new(needle),
                        cfg,
                        profile: "coherence-probe",
                    };
                    rep.count("cases");
                    let mut ev = Eval {
                        rep,
                        props: &props,
                        matcher: &mut matcher,
                        case_id: format!("U+{u:04X}"),
                        believed: None,
                        attribute_to: Some("C16"),
                    };
                    let h_reprs: &[bool] = if case.hay.ascii { &[true, false] } else { &[false] };
                    let n_reprs: &[bool] = if case.needle.ascii { &[true] } else { &[false] };
                    for &hr in h_reprs {
                        for &nr in n_reprs {
                            eval_case(&mut ev, &mut rng, &case, hr, nr);
                        }
                    }
                }
            }
        }
        // substitution: a haystack character and its image are the same character to every site, so replacing one by the other
        // (where both have the same character class, e.g. inverted exclamation mark / exclamation mark, e-acute / e) changes
        // no result of any entry point - score and indices included. The haystacks contain an earlier duplicate of the first
        // needle character so that the shrinking pass of the greedy matcher has work to do.
        if moved {
            for ci in 0..4usize {
                let cfg = RCfg {
                    ignore_case: ci & 1 != 0,
                    normalize: ci & 2 != 0,
                    bonus: BonusCfg::Default,
                    prefer_prefix: false,
                };
                let img = ref_norm(c, &cfg);
                if img == c || ref_norm(img, &cfg) != img {
                    continue;
                }
                // the stand-in: the image itself or its ASCII capital (KELVIN SIGN / K under case folding), whichever has the
                // class of the character
                let cc = ref_class(c, &cfg);
                let Some(equiv) = [img, img.to_ascii_uppercase()].into_iter().find(|&e| e != c && ref_norm(e, &cfg) == img && cc.is_some() && ref_class(e, &cfg) == cc) else {
                    continue;
                };
                let f0 = ref_norm(fill[0], &cfg);
                let f1 = ref_norm(fill[1], &cfg);
                for (hay, needle) in [
                    (vec![fill[0], ' ', fill[0], c, fill[1]], vec![f0, img]),
                    (vec![fill[0], fill[1], fill[0], fill[2], c], vec![f0, img]),
                    (vec![c, fill[1], c, fill[0]], vec![img, f0]),
                    (vec![fill[0], c, fill[0], c, fill[1]], vec![f0, img, f1]),
                    // the plain image occurs again later, where the rest of the needle no longer follows
                    (vec![c, fill[1], fill[2], img, fill[0]], vec![img, f1]),
                    (vec![fill[2], c, fill[1], ' ', img, fill[0], img], vec![img, f1]),
                ] {
                    let replaced: Vec<char> = hay.iter().map(|&x| if x == c { equiv } else { x }).collect();
                    let (h1, h2, n) = (Text::new(hay.clone()), Text::new(replaced), Text::new(needle.clone()));
                    matcher.config = cfg.real();
                    rep.count("c16.substitution-probes");
                    for algo in ALGOS {
                        let mut i1 = Vec::new();
                        let mut i2 = Vec::new();
                        let r = caught(|| {
                            let a = call(&mut matcher, algo, h1.view(false), n.view(false), Some(&mut i1));
                            let b = call(&mut matcher, algo, h2.view(false), n.view(false), Some(&mut i2));
                            (a, b)
                        });
                        match r {
                            Ok((a, b)) if a == b && i1 == i2 => (),
                            Ok((a, b)) => {
                                rep.violation(
                                    "C16",
                                    "coherence/result-changes-when-a-character-is-replaced-by-its-image",
                                    format!("{}_indices", algo.name()),
                                    jobj! {"haystack" => show_chars(&hay), "needle" => show_chars(&needle), "config" => format!("{cfg:?}"), "case_id" => format!("U+{u:04X}"),
                                           "with_the_character" => format!("{a:?} {i1:?}"), "with_its_image" => format!("{b:?} {i2:?}"), "stand_in" => show_chars(&[equiv])},
                                );
                                break;
                            }
                            Err(e) => {
                                rep.violation("C16", "panic", format!("panic@{}", e.rsplit(" @ ").next().unwrap_or("")), jobj! {"message" => e, "case_id" => format!("U+{u:04X}")});
                                break;
                            }
                        }
                    }
                }
            }
        }
        // the character immediately followed by its own image, where the image is itself moved again (U+212B, U+00E5): every
        // site has to normalize the second character on its own account, whatever it just did for the first
        if moved {
            for ci in 0..4usize {
                let cfg = RCfg {
                    ignore_case: ci & 1 != 0,
                    normalize: ci & 2 != 0,
                    bonus: BonusCfg::Default,
                    prefer_prefix: false,
                };
                let img = ref_norm(c, &cfg);
                let img2 = ref_norm(img, &cfg);
                if img == c || img2 == img {
                    continue;
                }
                for (hay, needle) in [
                    (vec![fill[0], c, img, fill[1]], vec![ref_norm(fill[0], &cfg), img2]),
                    (vec![fill[0], c, img, fill[1]], vec![img2, ref_norm(fill[1], &cfg)]),
                    (vec![c, img, fill[1], fill[2]], vec![img, img2]),
                    (vec![fill[0], img, c, fill[1]], vec![img2, img]),
                    // the image directly in front of the character (scans that run from the end meet the character first)
                    (vec![fill[0], img, c], vec![ref_norm(fill[0], &cfg), img2]),
                    (vec![fill[0], img, c, fill[1]], vec![ref_norm(fill[0], &cfg), img2]),
                    (vec![fill[0], fill[2], img, c, c], vec![ref_norm(fill[0], &cfg), img2]),
                ] {
                    if needle.iter().any(|&x| ref_norm(x, &cfg) != x && x != img) {
                        continue;
                    }
                    if needle.iter().any(|&x| ref_norm(x, &cfg) != x) {
                        // a needle holding the image itself is outside "already normalized" for the positive direction
                        continue;
                    }
                    let case = Case {
                        hay: Text::new(hay),
                        needle: Text::new(needle),
                        cfg,
                        profile: "coherence-adjacent-pair",
                    };
                    rep.count("cases");
                    rep.count("c16.adjacent-pair-probes");
                    let mut ev = Eval {
                        rep,
                        props: &props,
                        matcher: &mut matcher,
                        case_id: format!("U+{u:04X}"),
                        believed: None,
                        attribute_to: Some("C16"),
                    };
                    eval_case(&mut ev, &mut rng, &case, false, case.needle.ascii);
                    eval_case(&mut ev, &mut rng, &case, false, false);
                }
            }
        }
        // the image of a character that is itself moved again (the composed projection is not idempotent for a few dozen
        // characters: U+1E9E -> U+00DF -> s): a haystack that holds the image *raw* must not match a needle holding the image,
        // at any site that filters, scans or compares (the sites that do not touch the needle are probed: fuzzy, greedy, substring)
        if moved {
            for ci in 0..4usize {
                let cfg = RCfg {
                    ignore_case: ci & 1 != 0,
                    normalize: ci & 2 != 0,
                    bonus: BonusCfg::Default,
                    prefer_prefix: false,
                };
                let img = ref_norm(c, &cfg);
                if img == c || ref_norm(img, &cfg) == img || img.is_ascii() {
                    continue;
                }
                matcher.config = cfg.real();
                for (hay, needle) in [
                    (vec![fill[0], fill[1], img, fill[0]], vec![img]),
                    (vec![img, fill[1], fill[2]], vec![img]),
                    (vec![fill[0], fill[1], img], vec![img]),
                    (vec![fill[0], img, fill[1], fill[2]], vec![ref_norm(fill[0], &cfg), img]),
                    (vec![fill[0], fill[1], img, fill[2]], vec![img, ref_norm(fill[2], &cfg)]),
                ] {
                    let hn = ref_norm_all(&hay, &cfg);
                    if needle.iter().all(|n| hn.contains(n)) && needle.len() == 1 {
                        continue; // some other haystack character really maps to it
                    }
                    let h = Text::new(hay.clone());
                    let n = Text::new(needle.clone());
                    rep.count("c16.raw-image-probes");
                    for algo in [Algo::Fuzzy, Algo::Greedy, Algo::Substring] {
                        for with_indices in [false, true] {
                            let mut idx = Vec::new();
                            let r = caught(|| call(&mut matcher, algo, h.view(false), n.view(false), if with_indices { Some(&mut idx) } else { None }));
                            match r {
                                Ok(None) => (),
                                Ok(Some(score)) => rep.violation(
                                    "C16",
                                    "coherence/raw-image-accepted",
                                    format!("{}{}", algo.name(), if with_indices { "_indices" } else { "_match" }),
                                    jobj! {"haystack" => show_chars(&hay), "needle" => show_chars(&needle), "config" => format!("{cfg:?}"), "score" => score as u64,
                                           "indices" => idx.iter().map(|&x| x as u64).collect::<Vec<u64>>(), "case_id" => format!("U+{u:04X}"),
                                           "problem" => format!("U+{:04X} in the haystack normalizes to U+{:04X} under this configuration, yet it was accepted for the needle character U+{:04X}", img as u32, ref_norm(img, &cfg) as u32, img as u32)},
                                ),
                                Err(e) => rep.violation("C16", "panic", format!("panic@{}", e.rsplit(" @ ").next().unwrap_or("")), jobj! {"message" => e, "case_id" => format!("U+{u:04X}")}),
                            }
                        }
                    }
                }
            }
        }
        if rep.want_sample() && moved && u % 97 == 3 {
            rep.sample(jobj! {"char" => format!("U+{u:04X}"), "fold" => format!("U+{:04X}", chars::to_lower_case(c) as u32),
                "normalize" => format!("U+{:04X}", chars::normalize(c) as u32), "probes" => "first/inner/last x 4 configurations x 6 needles x 12 entry points"});
        }
    }
}

/// every ordered pair of ASCII characters, the first one sitting in a haystack that is held as code points, the second one
/// being the needle: each site must accept exactly when the haystack character normalizes to the needle character
fn ascii_pair_sweep(opts: &Opts, rep: &mut Report) {
    let props = Props::parse("C01,C05");
    let mut matcher = crate::m_match::initial_matcher(opts.seed, opts.shard, 3);
    let mut rng = Rng::new(mix(&[opts.seed, opts.shard, 1616]));
    for ci in 0..4usize {
        let cfg = RCfg {
            ignore_case: ci & 1 != 0,
            normalize: ci & 2 != 0,
            bonus: BonusCfg::Default,
            prefer_prefix: false,
        };
        for a in 0u8..128 {
            for b in 0u8..128 {
                let (ca, cb) = (a as char, b as char);
                if a == b || ref_norm(cb, &cfg) != cb || a == 0x0b || b == 0x0b {
                    continue;
                }
                // only the pairs that are close in some bit pattern sense are run through all entry points, the others
                // through a sample
                let close = (a ^ b).count_ones() <= 1 || a.abs_diff(b) <= 1 || a.abs_diff(b) == 32 || a.abs_diff(b) == 31 || a.abs_diff(b) == 33;
                if !close && (a as usize * 131 + b as usize * 7 + opts.seed as usize) % 23 != 0 {
                    continue;
                }
                for hay in [vec!['\u{3bb}', ca, 'x'], vec![ca, '\u{3bb}', 'x'], vec!['x', '\u{3bb}', ca]] {
                    let case = Case {
                        hay: Text::new(hay),
                        needle: Text::new(if rng.coin() { vec![cb] } else { vec![cb, 'x'] }),
                        cfg,
                        profile: "ascii-pair",
                    };
                    rep.count("c16.ascii-pair-probes");
                    let mut ev = Eval {
                        rep,
                        props: &props,
                        matcher: &mut matcher,
                        case_id: format!("pair {a:#04x}/{b:#04x}"),
                        believed: None,
                        attribute_to: Some("C16"),
                    };
                    eval_case(&mut ev, &mut rng, &case, false, true);
                }
            }
        }
    }
}

pub fn run(opts: &Opts, rep: &mut Report) {
    if opts.shard == 0 && opts.replay.is_none() {
        table_part(opts, rep);
    }
    if opts.shard == 1 % opts.shards.max(1) && opts.replay.is_none() {
        ascii_pair_sweep(opts, rep);
    }
    coherence_part(opts, rep);
}
