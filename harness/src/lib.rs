//! vmon: runtime monitors for helix-editor/nucleo (see /verif/DESIGN.md).
pub mod json;
pub mod m_boxcar;
pub mod m_chars;
pub mod m_compose;
pub mod m_directed;
pub mod m_grammar;
pub mod m_match;
pub mod m_strings;
pub mod m_quality;
pub mod m_sort;
pub mod m_total;
pub mod m_worker;
pub mod refm;
pub mod report;
pub mod rng;
pub mod sched;
pub mod ugen;
