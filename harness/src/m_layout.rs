//! Vector level monitors that are about the item type and the index space rather than about
//! interleavings (single threaded on the `BoxcarVec` facade):
//!
//! * `run_layout`: item types of every alignment (1..64 bytes), with and without drop glue, zero sized,
//!   x 1..5 matcher columns x capacities: every reference handed out is aligned for its type, items and
//!   columns read back exactly, and after the vector is gone not a single heap allocation made on its
//!   behalf is still alive (counting global allocator; LeakSanitizer and Miri see the same workload) -
//!   C06 (safe to read), C08 (value and columns forever at the index), C11 (nothing leaked, whatever
//!   the item type);
//! * `run_exhaust`: the index space is exhausted by refused reservations (iterators that report close
//!   to 2^32 elements); afterwards every push / extend is either refused or gets a fresh index, and the
//!   items stored before stay what they were - C08.
use std::alloc::{GlobalAlloc, Layout, System};
use std::fmt::Debug;
use std::panic::{catch_unwind, AssertUnwindSafe};
use std::sync::atomic::{AtomicI64, AtomicU64, Ordering};

use nucleo::verif::BoxcarVec;
use nucleo::Utf32String;

use crate::jobj;
use crate::m_boxcar::{col_text, Opts};
use crate::report::Report;
use crate::rng::{mix, Hasher64, Rng};

// ---------------------------------------------------------------------------------- counting allocator

pub struct CountingAlloc;

static LIVE: AtomicI64 = AtomicI64::new(0);
static TOTAL: AtomicU64 = AtomicU64::new(0);

unsafe impl GlobalAlloc for CountingAlloc {
    unsafe fn alloc(&self, l: Layout) -> *mut u8 {
        let p = System.alloc(l);
        if !p.is_null() {
            LIVE.fetch_add(1, Ordering::Relaxed);
            TOTAL.fetch_add(1, Ordering::Relaxed);
        }
        p
    }
    unsafe fn alloc_zeroed(&self, l: Layout) -> *mut u8 {
        let p = System.alloc_zeroed(l);
        if !p.is_null() {
            LIVE.fetch_add(1, Ordering::Relaxed);
            TOTAL.fetch_add(1, Ordering::Relaxed);
        }
        p
    }
    unsafe fn dealloc(&self, p: *mut u8, l: Layout) {
        LIVE.fetch_sub(1, Ordering::Relaxed);
        System.dealloc(p, l)
    }
    unsafe fn realloc(&self, p: *mut u8, l: Layout, new_size: usize) -> *mut u8 {
        System.realloc(p, l, new_size)
    }
}

pub fn live_allocations() -> i64 {
    LIVE.load(Ordering::Relaxed)
}

pub fn total_allocations() -> u64 {
    TOTAL.load(Ordering::Relaxed)
}

// ---------------------------------------------------------------------------------- item types

#[derive(Clone, Copy, PartialEq, Debug)]
#[repr(align(16))]
pub struct A16(pub u32);
#[derive(Clone, Copy, PartialEq, Debug)]
#[repr(align(32))]
pub struct A32(pub u64, pub u8);
#[derive(Clone, Copy, PartialEq, Debug)]
#[repr(align(64))]
pub struct A64(pub u8);
#[derive(Clone, PartialEq, Debug)]
#[repr(align(16))]
pub struct A16Owned(pub String);
#[derive(Clone, Copy, PartialEq, Debug)]
pub struct Zst;

const WORDS: &[&str] = &["alpha", "beta", "gamma", "delta", "epsilon"];

struct LenIter<I> {
    inner: I,
    reported: usize,
}

impl<I: Iterator> Iterator for LenIter<I> {
    type Item = I::Item;
    fn next(&mut self) -> Option<I::Item> {
        self.inner.next()
    }
}

impl<I: Iterator> ExactSizeIterator for LenIter<I> {
    fn len(&self) -> usize {
        self.reported
    }
}

struct Outcome {
    problems: Vec<(&'static str, &'static str, String)>,
    items: u64,
    refs: u64,
}

/// one vector of `n` items of type `T`; returns what was wrong
fn layout_case<T: Clone + PartialEq + Debug>(make: &dyn Fn(u32) -> T, cols: usize, cap: u32, n: u32, batch: u32, empty_cols: bool) -> Outcome {
    let problems: std::cell::RefCell<Vec<(&'static str, &'static str, String)>> = std::cell::RefCell::new(Vec::new());
    let refs = std::cell::Cell::new(0u64);
    let vec: BoxcarVec<T> = BoxcarVec::with_capacity(cap, cols as u32);
    let fill = |id: u32, c: &mut [Utf32String]| {
        if empty_cols {
            return;
        }
        for (k, col) in c.iter_mut().enumerate() {
            *col = col_text(id, k).into();
        }
    };
    let mut next = 0u32;
    while next < n {
        if batch > 1 && next + batch <= n {
            let ids: Vec<u32> = (next..next + batch).collect();
            let pos = std::cell::Cell::new(next);
            vec.extend(
                LenIter {
                    inner: ids.iter().map(|&i| make(i)),
                    reported: batch as usize,
                },
                |_, c| {
                    fill(pos.get(), c);
                    pos.set(pos.get() + 1);
                },
            );
            next += batch;
        } else {
            let id = next;
            let idx = vec.push(make(id), |_, c| fill(id, c));
            if idx != id {
                problems.borrow_mut().push(("C08", "index-not-gap-free", format!("push number {id} got index {idx}")));
            }
            next += 1;
        }
    }
    if vec.count() != n {
        problems.borrow_mut().push(("C08", "count-wrong", format!("count {} after {n} completed pushes", vec.count())));
    }
    let check = |i: u32, item: nucleo::Item<'_, T>, how: &str| {
        refs.set(refs.get() + 1);
        let addr = item.data as *const T as usize;
        if addr % std::mem::align_of::<T>() != 0 {
            problems.borrow_mut().push((
                "C06",
                "misaligned-item-reference",
                format!("{how}({i}): &T at {addr:#x} is not aligned to {} ({})", std::mem::align_of::<T>(), std::any::type_name::<T>()),
            ));
            return; // reading through it would be undefined behaviour
        }
        let caddr = item.matcher_columns.as_ptr() as usize;
        if caddr % std::mem::align_of::<Utf32String>() != 0 {
            problems.borrow_mut().push(("C06", "misaligned-column-reference", format!("{how}({i}): columns at {caddr:#x}")));
            return;
        }
        if *item.data != make(i) {
            problems.borrow_mut().push(("C08", "item-value-differs", format!("{how}({i}): {:?}, pushed {:?}", item.data, make(i))));
        }
        if item.matcher_columns.len() != cols {
            problems.borrow_mut().push(("C08", "column-count-differs", format!("{how}({i}): {} columns, vector has {cols}", item.matcher_columns.len())));
        }
        for (k, col) in item.matcher_columns.iter().enumerate() {
            let expected: Utf32String = if empty_cols { Utf32String::default() } else { col_text(i, k).into() };
            if *col != expected {
                problems.borrow_mut().push(("C08", "column-text-differs", format!("{how}({i}) column {k}: {col:?}, filled with {expected:?}")));
            }
        }
    };
    for i in 0..n {
        match vec.get(i) {
            Some(item) => check(i, item, "get"),
            None => problems.borrow_mut().push(("C08", "completed-push-not-readable", format!("get({i}) is None"))),
        }
    }
    if vec.get(n).is_some() {
        problems.borrow_mut().push(("C08", "item-at-unassigned-index", format!("get({n}) is Some")));
    }
    let mut seen = 0u32;
    let end = vec.snapshot(0, |i, item| {
        if let Some(item) = item {
            check(i, item, "snapshot");
            seen += 1;
        }
    });
    if end != n || seen != n {
        problems.borrow_mut().push(("C08", "snapshot-incomplete", format!("snapshot end {end}, {seen} items, pushed {n}")));
    }
    drop(vec);
    Outcome {
        problems: problems.into_inner(),
        items: n as u64,
        refs: refs.get(),
    }
}

macro_rules! layout_type {
    ($rep:expr, $opts:expr, $idx:expr, $rng:expr, $name:expr, $glue:expr, $make:expr) => {{
        let cols = $rng.range(1, 5); // (zero columns are refused by an assertion of the vector)
        let cap = *$rng.pick(&[0u32, 1, 31, 32, 33, 100]);
        // beyond the first bucket (32) and sometimes beyond the second (96)
        let n = *$rng.pick(&[2u32, 5, 33, 40, 70, 101]);
        // the interpreter is four orders of magnitude slower: a third of the types per round, few buckets
        let skip = cfg!(miri) && !$rng.chance(1, 3);
        let (n, cap) = if cfg!(miri) { (if n > 33 { 7 } else { n }, cap.min(33)) } else { (n, cap) };
        let batch = *$rng.pick(&[1u32, 1, 3, 34]);
        let empty_cols = $rng.chance(1, 6);
        let make = $make;
        if !skip {
        let before = live_allocations();
        let o = layout_case(&make, cols, cap, n, batch, empty_cols);
        let after = live_allocations();
        $rep.count("layout.vectors");
        $rep.count(&format!("layout.type.{}", $name));
        $rep.add("layout.items", o.items);
        $rep.add("layout.references-checked", o.refs);
        if !$glue && !empty_cols {
            $rep.add("c11.plain-data-items-with-filled-columns", o.items);
        }
        let mut h = Hasher64::new();
        h.add_chars(&$name.chars().collect::<Vec<_>>());
        h.add((cols as u64) << 32 | (cap as u64) << 16 | (n as u64) << 4 | batch as u64 | (empty_cols as u64) << 60);
        $rep.distinct(h.finish());
        let detail = |msg: String| {
            jobj! {"problem" => msg, "case_id" => format!("{}:{}:{}", $opts.seed, $opts.shard, $idx), "item_type" => $name, "align" => std::mem::align_of_val(&make(0)) as u64,
                   "columns" => cols as u64, "capacity" => cap, "items" => n, "batch" => batch, "columns_left_empty" => empty_cols}
        };
        if o.problems.is_empty() && after != before {
            $rep.violation(
                "C11",
                "allocation-outlives-the-vector",
                format!("drop-glue={} empty-columns={}", $glue, empty_cols),
                detail(format!("{} heap allocations made while the vector lived are still alive after it was dropped", after - before)),
            );
        }
        for (prop, kind, msg) in o.problems.into_iter().take(3) {
            $rep.violation(prop, kind, format!("type={} cols%2={}", $name, cols % 2), detail(msg));
        }
        }
    }};
}

pub fn mem_available_gib() -> u64 {
    std::fs::read_to_string("/proc/meminfo")
        .ok()
        .and_then(|m| {
            m.lines()
                .find(|l| l.starts_with("MemAvailable:"))
                .and_then(|l| l.split_whitespace().nth(1).and_then(|kb| kb.parse::<u64>().ok()))
        })
        .map_or(0, |kb| kb / (1024 * 1024))
}

/// entries of exactly 128 KiB (5461 matcher columns): two indices of one bucket whose byte offsets are 4 GiB apart.
/// The 8 GiB bucket is only reserved address space; one page per entry is touched by the vector's own initialisation
/// (about 260 MiB resident). Indices are reserved by batches that report a length and yield nothing.
fn huge_entry_case(opts: &Opts, rep: &mut Report) {
    let strict_overcommit = std::fs::read_to_string("/proc/sys/vm/overcommit_memory").map_or(false, |s| s.trim() == "2");
    if cfg!(miri) || std::env::var_os("ASAN_OPTIONS").is_some() || mem_available_gib() < 6 || strict_overcommit {
        rep.count("layout.huge-entry-case-skipped");
        return;
    }
    const COLS: u32 = 5461;
    let vec: BoxcarVec<u32> = BoxcarVec::with_capacity(0, COLS);
    let r = catch_unwind(AssertUnwindSafe(|| {
        let vec = &vec;
        let reserve = |n: usize| vec.extend(LenIter { inner: std::iter::empty::<u32>(), reported: n }, |_, _| {});
        let mut problems = Vec::new();
        reserve(65_509);
        let low = vec.push(111, |_, c| c[0] = "low".into());
        reserve(98_277 - 65_510);
        let high = vec.push(222, |_, c| c[COLS as usize - 1] = "high".into());
        if (low, high) != (65_509, 98_277) {
            problems.push(format!("pushes landed at {low} and {high}"));
        }
        for (idx, value, col, text) in [(low, 111u32, 0usize, "low"), (high, 222, COLS as usize - 1, "high")] {
            match vec.get(idx) {
                Some(it) => {
                    let expected: Utf32String = text.into();
                    if *it.data != value || it.matcher_columns.len() != COLS as usize || it.matcher_columns[col] != expected {
                        problems.push(format!("index {idx} holds {} / column {col} {:?}, pushed {value} / {text:?}", it.data, it.matcher_columns[col]));
                    }
                }
                None => problems.push(format!("get({idx}) is None after its push returned")),
            }
        }
        for idx in [low + 32_768 - 1, low + 1, high - 1] {
            if vec.get(idx).is_some() {
                problems.push(format!("get({idx}) returns an item although nothing was pushed there"));
            }
        }
        problems
    }));
    rep.count("layout.huge-entry-cases");
    let detail = |msg: String| jobj! {"problem" => msg, "case_id" => format!("{}:{}:huge-entry", opts.seed, opts.shard), "columns" => COLS as u64, "entry_bytes" => 131072u64};
    if r.as_ref().map_or(true, |p| !p.is_empty()) {
        // whatever went wrong may go wrong again (or worse) while the vector is torn down: leak it
        std::mem::forget(vec);
    }
    match r {
        Ok(problems) => {
            for p in problems.into_iter().take(3) {
                rep.violation("C08", "item-differs-far-inside-a-large-bucket", "entries 4 GiB apart in one bucket".into(), detail(p));
            }
        }
        Err(_) => {
            let msg = crate::refm::last_panic();
            let loc = msg.rsplit(" @ ").next().unwrap_or("").to_owned();
            if crate::refm::in_repository(&loc) {
                rep.violation("C08", "panic", format!("panic@{loc}"), detail(msg));
            } else {
                rep.inconclusive(format!("monitor panicked outside the repository code: {msg}"));
            }
        }
    }
}

pub fn run_layout(opts: &Opts, rep: &mut Report) {
    if opts.shard == 0 && opts.replay.is_none() {
        huge_entry_case(opts, rep);
    }
    let range: Box<dyn Iterator<Item = u64>> = match opts.replay {
        Some(i) => Box::new(i..i + 1),
        None => Box::new(0..opts.cases),
    };
    // warm up lazily initialised state of the monitor itself so that it is not counted
    let _ = col_text(1, 1);
    for idx in range {
        if rep.elapsed() > opts.time_limit {
            rep.note(format!("time limit reached after {idx} rounds"));
            break;
        }
        let mut rng = Rng::new(mix(&[opts.seed, opts.shard, idx, 31]));
        layout_type!(rep, opts, idx, rng, "u8", false, |i: u32| i as u8);
        layout_type!(rep, opts, idx, rng, "u32", false, |i: u32| i);
        layout_type!(rep, opts, idx, rng, "u64", false, |i: u32| i as u64 * 0x1_0000_0001);
        layout_type!(rep, opts, idx, rng, "u128", false, |i: u32| (i as u128) << 70 | i as u128);
        layout_type!(rep, opts, idx, rng, "unit", false, |_i: u32| ());
        layout_type!(rep, opts, idx, rng, "zst", false, |_i: u32| Zst);
        layout_type!(rep, opts, idx, rng, "static-str", false, |i: u32| WORDS[i as usize % WORDS.len()]);
        layout_type!(rep, opts, idx, rng, "array3xu16", false, |i: u32| [i as u16, 7, (i >> 3) as u16]);
        if !cfg!(miri) {
            // an item larger than a page
            layout_type!(rep, opts, idx, rng, "array640xu64", false, |i: u32| [i as u64 ^ 0x9e37_79b9; 640]);
        }
        layout_type!(rep, opts, idx, rng, "align16", false, |i: u32| A16(i));
        layout_type!(rep, opts, idx, rng, "align32", false, |i: u32| A32(i as u64, 3));
        layout_type!(rep, opts, idx, rng, "align64", false, |i: u32| A64(i as u8));
        layout_type!(rep, opts, idx, rng, "string", true, |i: u32| format!("owned-{i}"));
        layout_type!(rep, opts, idx, rng, "boxed", true, |i: u32| Box::new(i));
        layout_type!(rep, opts, idx, rng, "align16-owned", true, |i: u32| A16Owned(format!("owned-{i}")));
        layout_type!(rep, opts, idx, rng, "tuple-u8-string", true, |i: u32| (i as u8, format!("{i}")));
        // large vectors: the index -> (bucket, entry) arithmetic far beyond the first buckets
        if !cfg!(miri) && idx % 6 == 5 {
            let n = *rng.pick(&[40_000u32, 70_000, 131_072 - 32, 300_000, 1_100_000]) + rng.below(3) as u32;
            let cap = *rng.pick(&[0u32, 1, 1000, 70_000]);
            let before = live_allocations();
            let o = layout_case(&|i: u32| i ^ 0x5a5a_0000, 1, cap, n, *rng.pick(&[1u32, 10_000, 65_536]), true);
            let after = live_allocations();
            rep.count("layout.large-vectors");
            rep.max("layout.max-items-in-one-vector", n as u64);
            rep.add("layout.items", o.items);
            rep.add("layout.references-checked", o.refs);
            let detail = |msg: String| jobj! {"problem" => msg, "case_id" => format!("{}:{}:{}", opts.seed, opts.shard, idx), "item_type" => "u32 (large vector)", "capacity" => cap, "items" => n};
            if o.problems.is_empty() && after != before {
                rep.violation("C11", "allocation-outlives-the-vector", "large vector".into(), detail(format!("{} allocations still alive", after - before)));
            }
            for (prop, kind, msg) in o.problems.into_iter().take(3) {
                rep.violation(prop, kind, "type=u32 large".into(), detail(msg));
            }
        }
        rep.count("rounds");
    }
    rep.add("layout.allocations-counted", total_allocations());
    if rep.get("layout.vectors") > 0 && total_allocations() == 0 {
        rep.inconclusive("the counting allocator is not installed in this binary");
    }
}

// ---------------------------------------------------------------------------------- exhausted index space

/// item with drop accounting for the exhaust mode
pub struct Counted(pub String);

static COUNTED_CREATED: AtomicU64 = AtomicU64::new(0);
static COUNTED_DROPPED: AtomicU64 = AtomicU64::new(0);

fn ct(s: String) -> Counted {
    COUNTED_CREATED.fetch_add(1, Ordering::SeqCst);
    Counted(s)
}

impl Drop for Counted {
    fn drop(&mut self) {
        COUNTED_DROPPED.fetch_add(1, Ordering::SeqCst);
    }
}

/// 0 idle, 1 armed (the next thread reaching VecAfterReserve parks), 2 parked, 3 released
static PARK: AtomicU64 = AtomicU64::new(0);

fn exhaust_hook(p: nucleo::verif::Point) {
    if p == nucleo::verif::Point::VecAfterReserve && PARK.compare_exchange(1, 2, Ordering::SeqCst, Ordering::SeqCst).is_ok() {
        let deadline = std::time::Instant::now() + std::time::Duration::from_secs(2);
        while PARK.load(Ordering::SeqCst) != 3 && std::time::Instant::now() < deadline {
            std::thread::yield_now();
        }
        PARK.store(0, Ordering::SeqCst);
    }
}

pub fn run_exhaust(opts: &Opts, rep: &mut Report) {
    let range: Box<dyn Iterator<Item = u64>> = match opts.replay {
        Some(i) => Box::new(i..i + 1),
        None => Box::new(0..opts.cases),
    };
    nucleo::verif::set_hook(Some(exhaust_hook));
    for idx in range {
        if rep.elapsed() > opts.time_limit {
            rep.note(format!("time limit reached after {idx} histories"));
            break;
        }
        let mut rng = Rng::new(mix(&[opts.seed, opts.shard, idx, 32]));
        let cols = rng.range(1, 3);
        let cap = *rng.pick(&[0u32, 1, 32, 100]);
        let created_before = COUNTED_CREATED.load(Ordering::SeqCst);
        let dropped_before = COUNTED_DROPPED.load(Ordering::SeqCst);
        let vec: BoxcarVec<Counted> = BoxcarVec::with_capacity(cap, cols as u32);
        let n0 = *rng.pick(&[1usize, 5, 31, 32, 33, 40, 100, 130]) as u32;
        let mut stored: Vec<(u32, String)> = Vec::new();
        let mut problems: Vec<(&'static str, String)> = Vec::new();
        let mut ops: Vec<String> = Vec::new();
        for i in 0..n0 {
            let v = format!("first-{i}");
            let idx = vec.push(ct(v.clone()), |_, c| c[0] = col_text(i, 0).into());
            stored.push((idx, v));
        }
        ops.push(format!("{n0} pushes"));
        // reservations that must be refused: together they move the reservation counter to and beyond 2^32.
        // `counter` models the reservation counter of the unchanged code (a refused reservation still counts)
        let mut counter: u64 = n0 as u64;
        let mut refused = 0;
        let mut accepted_after_refusal = 0u64;
        let mut late = 0u32;
        let r0 = rng.below(4) as u64;
        let steps = 1 + rng.below(2) + r0 as usize + 1 + rng.range(1, 5);
        for r in 0..steps {
            let kind = if r == 0 {
                0
            } else if r == 1 && rng.coin() {
                2
            } else {
                3 + rng.below(2)
            };
            let label;
            let res = match kind {
                // a batch whose reported length ends within the last 32 indices of the u32 range: refused, but reserved
                0 => {
                    let reported = (u32::MAX as u64 - counter - r0) as usize;
                    counter += reported as u64;
                    label = format!("extend reporting {reported} elements (2 real)");
                    let it = LenIter {
                        inner: vec![ct(format!("huge-{r}-a")), ct(format!("huge-{r}-b"))].into_iter(),
                        reported,
                    };
                    // the refused batch runs on its own thread and is parked right after its reservation; this thread reads
                    // the item count in that window and again afterwards: the count never decreases
                    let concurrent = rng.coin();
                    if concurrent {
                        PARK.store(1, Ordering::SeqCst);
                    }
                    let vref = &vec;
                    let (res, during) = std::thread::scope(|s| {
                        let h = s.spawn(move || {
                            catch_unwind(AssertUnwindSafe(|| {
                                vref.extend(it, |_, c| c[0] = "huge".into());
                                None
                            }))
                        });
                        let mut during = None;
                        if concurrent {
                            let deadline = std::time::Instant::now() + std::time::Duration::from_secs(2);
                            while PARK.load(Ordering::SeqCst) != 2 && std::time::Instant::now() < deadline && !h.is_finished() {
                                std::thread::yield_now();
                            }
                            if PARK.load(Ordering::SeqCst) == 2 {
                                during = Some(vref.count());
                                PARK.store(3, Ordering::SeqCst);
                            } else {
                                PARK.store(0, Ordering::SeqCst);
                            }
                        }
                        (h.join().unwrap_or(Ok(None)), during)
                    });
                    if let Some(c1) = during {
                        let c2 = vec.count();
                        rep.count("exhaust.count-read-inside-a-refused-reservation");
                        if c2 < c1 {
                            problems.push(("count-decreased", format!("the item count was {c1} while the batch held its reservation and {c2} after the batch was refused")));
                        }
                    }
                    res
                }
                // a reported length that does not even fit the index type: refused before anything is reserved
                2 => {
                    let reported = u32::MAX as usize + 1 + rng.below(1000);
                    label = format!("extend reporting {reported} elements (1 real)");
                    let it = LenIter {
                        inner: vec![ct(format!("huger-{r}"))].into_iter(),
                        reported,
                    };
                    catch_unwind(AssertUnwindSafe(|| {
                        vec.extend(it, |_, c| c[0] = "huger".into());
                        None
                    }))
                }
                3 => {
                    late += 1;
                    counter += 1;
                    let v = format!("late-{late}");
                    label = format!("push {v} (reservation number {counter})");
                    let v2 = v.clone();
                    catch_unwind(AssertUnwindSafe(|| Some((vec.push(ct(v2), |_, c| c[0] = "late".into()), v))))
                }
                _ => {
                    late += 1;
                    counter += 1;
                    let v = format!("late-{late}");
                    label = format!("extend [{v}] (reservation number {counter})");
                    let v2 = v.clone();
                    catch_unwind(AssertUnwindSafe(|| {
                        vec.extend(vec![ct(v2)].into_iter(), |_, c| c[0] = "late".into());
                        None
                    }))
                }
            };
            if counter > u32::MAX as u64 + 1 {
                rep.count("exhaust.reservations-beyond-2^32");
            }
            match res {
                Err(_) => {
                    refused += 1;
                    ops.push(format!("{label}: refused"));
                }
                Ok(Some((index, v))) => {
                    accepted_after_refusal += 1;
                    ops.push(format!("{label}: index {index}"));
                    if stored.iter().any(|s| s.0 == index) {
                        problems.push(("index-handed-out-twice", format!("{label} got index {index}, which an earlier push already owns")));
                    }
                    stored.push((index, v));
                }
                Ok(None) => {
                    accepted_after_refusal += 1;
                    ops.push(format!("{label}: accepted"));
                }
            }
            // whatever happened, the items that were stored stay what they were
            for (i, v) in &stored {
                match vec.get(*i) {
                    Some(item) if item.data.0 == *v => (),
                    Some(item) => {
                        problems.push(("item-changed-after-later-operation", format!("index {i} holds {:?}, the push that owns it stored {v:?} (after {label})", item.data.0)));
                        break;
                    }
                    None => {
                        problems.push(("completed-push-not-readable", format!("get({i}) is None after {label}")));
                        break;
                    }
                }
            }
            if let Some(item) = vec.get(0) {
                let expected: Utf32String = col_text(0, 0).into();
                if item.matcher_columns[0] != expected {
                    problems.push(("column-text-differs", format!("column of index 0 is {:?} after {label}", item.matcher_columns[0])));
                }
            }
            if !problems.is_empty() {
                break;
            }
        }
        if (vec.count() as u64) < n0 as u64 {
            problems.push(("count-below-completed-pushes", format!("count {} after {n0} completed pushes", vec.count())));
        }
        rep.count("histories");
        rep.count("exhaust.histories");
        rep.add("exhaust.refused-reservations", refused);
        rep.add("exhaust.operations-accepted-after-a-refusal", accepted_after_refusal);
        let mut h = Hasher64::new();
        for o in &ops {
            h.add_chars(&o.chars().collect::<Vec<_>>());
        }
        h.add(cap as u64 * 8 + cols as u64);
        rep.distinct(h.finish());
        let clean = problems.is_empty();
        for (kind, msg) in problems.into_iter().take(2) {
            rep.violation(
                "C08",
                kind,
                "after-refused-reservations".into(),
                jobj! {"problem" => msg, "case_id" => format!("{}:{}:{}", opts.seed, opts.shard, idx), "capacity" => cap, "columns" => cols as u64,
                       "operations" => crate::json::J::Arr(ops.iter().map(|o| crate::json::J::Str(o.clone())).collect())},
            );
        }
        drop(vec);
        // C11: every item that was ever constructed for this vector (stored, refused, surplus) is gone now, exactly once
        let created = COUNTED_CREATED.load(Ordering::SeqCst) - created_before;
        let dropped = COUNTED_DROPPED.load(Ordering::SeqCst) - dropped_before;
        rep.add("c11.items-accounted-after-exhaustion", created);
        if clean && created != dropped {
            rep.violation(
                "C11",
                if dropped < created { "payload-never-dropped" } else { "payload-dropped-twice" },
                "vector whose index space was exhausted".into(),
                jobj! {"problem" => format!("{created} items were constructed for the vector, {dropped} destructions after the vector was dropped"),
                       "case_id" => format!("{}:{}:{}", opts.seed, opts.shard, idx), "capacity" => cap, "columns" => cols as u64, "items_pushed_first" => n0,
                       "operations" => crate::json::J::Arr(ops.iter().map(|o| crate::json::J::Str(o.clone())).collect())},
            );
        }
    }
    nucleo::verif::set_hook(None);
}
