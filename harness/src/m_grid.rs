//! Size-grid workload for Miri / ASan (C10 memory safety, C02 back-pointer walk): every entry
//! point on shapes that exercise the slab layout, the compressed matrix and the fallbacks.
use nucleo_matcher::Matcher;

use crate::jobj;
use crate::refm::*;
use crate::report::Report;
use crate::rng::{mix, Rng};

pub struct Opts {
    pub seed: u64,
    pub shard: u64,
    pub shards: u64,
    pub cases: u64,
    pub time_limit: f64,
    pub max_cells: usize,
}

const GRID: &[(usize, usize)] = &[
    (1, 1), (2, 1), (2, 2), (3, 2), (5, 4), (16, 3), (17, 16), (40, 7), (64, 8), (100, 5), (100, 60), (100, 99), (200, 20), (300, 64),
    (500, 30), (600, 80), (1000, 20), (1000, 100), (1025, 100), (2047, 3), (2048, 40), (2049, 2), (400, 256), (401, 256), (321, 319),
    (4000, 2), (20000, 3), (65535, 1), (65536, 2), (70000, 4),
];

pub fn run(opts: &Opts, rep: &mut Report) {
    let mut veteran = Matcher::default();
    let mut done = 0u64;
    for (gi, &(hl, nl)) in GRID.iter().enumerate() {
        if gi as u64 % opts.shards != opts.shard {
            continue;
        }
        if hl * nl > opts.max_cells {
            rep.count("grid.skipped-too-large-for-this-engine");
            continue;
        }
        for rep_i in 0..opts.cases {
            if rep.elapsed() > opts.time_limit {
                rep.note("time limit reached".to_string());
                return;
            }
            let mut rng = Rng::new(mix(&[opts.seed, gi as u64, rep_i, 1010]));
            let cfg = RCfg::from_index(rng.below(RCfg::COUNT));
            let unicode = rng.coin();
            let mut alphabet: Vec<char> = if rng.coin() { "ab".chars().collect() } else { "ab /A_c".chars().collect() };
            if unicode {
                alphabet.push('\u{e9}');
                alphabet.push('\u{3c2}');
            }
            let hay: Vec<char> = (0..hl).map(|_| *rng.pick(&alphabet)).collect();
            let hn = ref_norm_all(&hay, &cfg);
            // needle: spread subsequence so that the window is wide
            let mut needle = Vec::with_capacity(nl);
            let mut pos = 0usize;
            for k in 0..nl {
                let remaining = nl - k;
                let slack = hl - pos - remaining;
                let skip = if slack == 0 { 0 } else { rng.below((slack / remaining.max(1)).min(40) + 1) };
                pos += skip;
                needle.push(hn[pos]);
                pos += 1;
            }
            if rng.chance(1, 6) {
                let i = rng.below(nl);
                needle[i] = *rng.pick(&alphabet);
            }
            for c in needle.iter_mut() {
                *c = ref_norm(ref_norm(*c, &cfg), &cfg);
            }
            let hay_t = Text::new(hay);
            let needle_t = Text::new(needle);
            let hr = rng.coin();
            let h = hay_t.view(hr);
            let n = needle_t.view(needle_t.ascii);
            veteran.config = cfg.real();
            let mut fresh = Matcher::new(cfg.real());
            for algo in ALGOS {
                let mut i1 = vec![3u32];
                let mut i2 = vec![3u32];
                let a = call(&mut veteran, algo, h, n, None);
                let b = call(&mut veteran, algo, h, n, Some(&mut i1));
                let c = call(&mut fresh, algo, h, n, Some(&mut i2));
                rep.add("calls", 3);
                if cfg.prefer_prefix == false && a != b {
                    rep.violation("C10", "score-variants-differ", algo.name().into(), jobj! {"hay_len" => hl, "needle_len" => nl, "cfg" => cfg.show()});
                }
                if b != c || i1 != i2 {
                    rep.violation("C10", "history-dependent-result", algo.name().into(), jobj! {"hay_len" => hl, "needle_len" => nl, "cfg" => cfg.show()});
                }
                if let Some(_) = b {
                    let w = &i1[1..];
                    let ok = w.len() == needle_t.len() && w.windows(2).all(|x| x[0] < x[1]) && w.iter().zip(&needle_t.chars).all(|(&i, &nc)| (i as usize) < hl && hn[i as usize] == nc);
                    if !ok {
                        rep.violation("C02", "invalid-witness", algo.name().into(), jobj! {"hay_len" => hl, "needle_len" => nl, "cfg" => cfg.show()});
                    } else {
                        rep.count("c02.witnesses");
                    }
                }
            }
            rep.count("cases");
            rep.count("grid.shapes-run");
            rep.distinct(mix(&[gi as u64, rep_i, opts.seed]));
            if rep.want_sample() {
                rep.sample(jobj! {"hay_len" => hl, "needle_len" => nl, "cfg" => cfg.show(), "unicode" => unicode});
            }
            done += 1;
        }
    }
    let _ = done;
}
