//! Directed (hook steered) schedules against a real Nucleo: C06/C07/C12/C19 scenarios,
//! the C13 lost wake-up enumeration, the exact C20 model driver and the hook-free C09 shapes.
use std::collections::HashSet;
use std::sync::atomic::{AtomicBool, AtomicU64, Ordering};
use std::sync::{Arc, Condvar, Mutex};
use std::time::{Duration, Instant};

use nucleo::pattern::{CaseMatching, Normalization};
use nucleo::verif::{set_hook, Point};
use nucleo::{Config, Nucleo, Status, Utf32String};

use crate::jobj;
use crate::json::J;
use crate::m_boxcar::Registry;
use crate::m_worker::*;
use crate::report::Report;
use crate::rng::{mix, Rng};
use crate::sched::stamp;

fn flush_problems(w: &mut World, rep: &mut Report, props: &[&str], scenario: &str) {
    let problems = std::mem::take(&mut w.problems);
    for (prop, kind, msg) in problems {
        if !props.contains(&prop.as_str()) {
            rep.count(&format!("other-property-problem.{prop}"));
            continue;
        }
        let trail: Vec<J> = w.trail.iter().rev().take(80).rev().map(|s| J::Str(s.clone())).collect();
        rep.violation(
            &prop,
            &kind,
            format!("directed:{scenario}"),
            jobj! {"problem" => msg, "case_id" => w.case_id.clone(), "threads" => w.threads, "columns" => w.cols, "scenario" => scenario, "history_tail" => J::Arr(trail)},
        );
    }
}

fn finish(mut w: World, rep: &mut Report, props: &[&str], scenario: &str) {
    release_all();
    while !w.handles.is_empty() {
        w.drop_injector(0);
    }
    w.check_quiescent(rep);
    flush_problems(&mut w, rep, props, scenario);
    let timeouts = with_ctl(|c| std::mem::take(&mut c.pause_timeouts));
    rep.add("pause-timeouts", timeouts);
    w.shutdown();
    check_drops(&w, rep, props, &J::Str(scenario.to_owned()));
}

/// two writers in flight far apart while a parallel scan runs, then a rescore / the empty pattern
fn scenario_two_in_flight(rng: &mut Rng, id: String, rep: &mut Report, props: &[&str]) {
    let threads = *rng.pick(&[2usize, 3, 4, 8]);
    let mut w = World::new(id, rng, threads, 1, None);
    let k = w.new_injector();
    w.edit(0, *rng.pick(&["o", "a", "fo"]));
    let n0 = rng.range(0, 40);
    w.push_via(k, n0, true);
    // single items or whole batches (more than 64 unpublished indices around one published item)
    let batches = rng.chance(1, 2);
    let mut h1 = if batches { HeldWriter::start_batch(&mut w, k, *rng.pick(&[33u32, 40, 70]), 0) } else { HeldWriter::start(&mut w, k) };
    let n1 = if batches { rng.range(1, 3) } else { rng.range(600, 3000) };
    w.push_via(k, n1, true);
    let mut h2 = if batches { HeldWriter::start_batch(&mut w, k, *rng.pick(&[33u32, 40, 70]), 0) } else { HeldWriter::start(&mut w, k) };
    if batches {
        rep.count("directed.two-batches-in-flight");
    }
    let n2 = rng.range(1, 300);
    w.push_via(k, n2, rng.coin());
    let extra = rng.chance(1, 3).then(|| HeldWriter::start(&mut w, k));
    // scan with both in flight
    let mut guard = 0;
    loop {
        let st = w.tick(20);
        rep.count("snapshots-with-2+-writers-in-flight");
        guard += 1;
        if !st.running || guard > 3 {
            break;
        }
    }
    // now a path that calls reset_matches with the in-flight list
    match rng.below(3) {
        0 => w.edit(0, ""),
        1 => w.edit(0, "b"),
        _ => w.edit(0, "x o"),
    }
    guard = 0;
    loop {
        let st = w.tick(20);
        guard += 1;
        if !st.running || guard > 3 {
            break;
        }
    }
    // publish one of them, rescan, publish the other
    if rng.coin() {
        h1.release();
    } else {
        h2.release();
    }
    w.tick(20);
    w.tick(20);
    if rng.coin() {
        w.edit(0, "o");
        w.tick(30);
    }
    h1.release();
    h2.release();
    drop(extra);
    rep.count("directed.two-in-flight");
    finish(w, rep, props, "two-in-flight");
}

/// a run is cancelled in the middle (tick with a pattern change arrives while the worker scans / sorts)
fn scenario_cancel_mid_run(rng: &mut Rng, id: String, rep: &mut Report, props: &[&str]) {
    let threads = *rng.pick(&[1usize, 2, 4]);
    let mut w = World::new(id, rng, threads, 1, None);
    let k = w.new_injector();
    let n0 = rng.range(500, 6000);
    w.push_via(k, n0, true);
    w.edit(0, *rng.pick(&["o", "f", "a"]));
    while w.tick(50).running {}
    // next run will be paused at a phase boundary
    let phase = *rng.pick(&[Point::RunAfterResetMatches, Point::RunAfterScan, Point::RunBeforeSort, Point::RunAfterSort, Point::RunEntry]);
    let more = rng.range(200, 3000);
    w.push_via(k, more, rng.coin());
    let second = *rng.pick(&["oo", "fo", "ab", "o "]);
    let append_first = rng.coin();
    if append_first {
        // typed one more character: the paused run will be an Update run
        let t = format!("{}{}", w.texts[0], rng.pick(&['o', 'a', 'b']));
        w.edit(0, &t);
    }
    pause_at(phase);
    let st = w.tick(0);
    rep.count(&format!("tick.changed={}.running={}", st.changed, st.running));
    let reached = wait_paused(0, 1500);
    if !reached {
        rep.count("directed.phase-not-reached");
        cancel_pause(0);
    } else {
        rep.count(&format!("directed.paused-at.{phase:?}"));
        // user action while the worker is paused mid run
        match rng.below(3) {
            0 => w.edit(0, second),
            1 => {
                let t = format!("{}{}", w.texts[0], 'o');
                w.edit(0, &t)
            }
            _ => w.push_via(k, 50, false),
        }
        // a tick now has to cancel the paused run: it blocks on the worker lock, so it runs on
        // its own thread while we let the worker go on (it then observes the cancel flag)
        let ticked = std::thread::scope(|s| {
            let wref = &mut w;
            let h = s.spawn(move || wref.tick(10));
            std::thread::sleep(Duration::from_micros(300 + rng.below(2000) as u64));
            release(0);
            h.join().unwrap()
        });
        rep.count("directed.tick-over-paused-run");
        rep.count(&format!("tick.changed={}.running={}", ticked.changed, ticked.running));
    }
    w.tick(10);
    rep.count("directed.cancel-mid-run");
    finish(w, rep, props, "cancel-mid-run");
}

/// `update_config` (same configuration) called by the ticking thread while a background run is held at a phase
/// boundary: the call may wait for the run or not, but afterwards the status flags must still tell the truth and
/// the quiescent result must be the from-scratch result
fn scenario_update_config_mid_run(rng: &mut Rng, id: String, rep: &mut Report, props: &[&str]) {
    let threads = *rng.pick(&[1usize, 2, 4]);
    let mut w = World::new(id, rng, threads, 1, None);
    let k = w.new_injector();
    let n0 = rng.range(20, 3000);
    w.push_via(k, n0, true);
    let variant = rng.below(3);
    if variant != 0 {
        w.edit(0, *rng.pick(&["o", "f", "a"]));
    }
    if variant == 2 {
        // the held run is the second one (rescoring / appended pattern), earlier results exist
        while w.tick(50).running {}
        let more = rng.range(20, 2000);
        w.push_via(k, more, rng.coin());
        let t = if rng.coin() { format!("{}{}", w.texts[0], rng.pick(&['o', 'a', 'b'])) } else { (*rng.pick(&["b", "oo", "x"])).to_owned() };
        w.edit(0, &t);
    }
    wait_no_run_pending(2000);
    let phase = *rng.pick(&[Point::RunEntry, Point::RunAfterResetMatches, Point::RunAfterScan, Point::RunBeforeSort, Point::RunAfterSort, Point::RunBeforeNotifyCheck]);
    pause_at(phase);
    let st = w.tick(0);
    rep.count(&format!("tick.changed={}.running={}", st.changed, st.running));
    if !wait_paused(0, 1500) {
        rep.count("directed.phase-not-reached");
        cancel_pause(0);
        w.update_config_same();
    } else {
        rep.count(&format!("directed.update-config.run-held-at.{phase:?}"));
        // update_config takes the worker lock: let the run go on shortly after the call started
        let delay = Duration::from_micros(200 + rng.below(20_000) as u64);
        let releaser = std::thread::spawn(move || {
            std::thread::sleep(delay);
            release(0);
        });
        w.update_config_same();
        let _ = releaser.join();
        rep.count("directed.update-config-mid-run");
    }
    // no further edit, push or restart: whatever the ticks report now is about the work that was in progress
    let mut g = 0;
    while w.tick(*rng.pick(&[0u64, 1, 10])).running && g < 3000 {
        g += 1;
        if g % 50 == 0 {
            std::thread::sleep(Duration::from_millis(1));
        }
    }
    finish(w, rep, props, "update-config-mid-run");
}

/// a writer publishes its item exactly between two reads of the item vector that the background run performs while it
/// prunes its in-flight list (reset for the empty pattern / a rescore) or scans new items
fn scenario_publish_between_reads(rng: &mut Rng, id: String, rep: &mut Report, props: &[&str]) {
    let threads = *rng.pick(&[1usize, 1, 2, 4]);
    let mut w = World::new(id, rng, threads, 1, None);
    let k = w.new_injector();
    let empty = rng.coin();
    if !empty {
        w.edit(0, *rng.pick(&["o", "a", "f"]));
    }
    let n0 = rng.range(0, 30);
    w.push_via(k, n0, true);
    while w.tick(50).running {}
    let nheld = rng.range(1, 3);
    let mut held: Vec<HeldWriter> = Vec::new();
    for _ in 0..nheld {
        held.push(HeldWriter::start(&mut w, k));
        if rng.coin() {
            let n = rng.range(1, 5);
            w.push_via(k, n, rng.coin());
        }
    }
    // let the worker record them as in flight
    w.tick(20);
    w.tick(20);
    let reset_phase = rng.chance(3, 4);
    if !empty {
        // a pattern change that is not an append: the next run rebuilds the match list
        let t = *rng.pick(&["b", "x", "oo", ""]);
        if t != w.texts[0] {
            w.edit(0, t);
        }
    }
    wait_no_run_pending(2000);
    let (from, to) = if reset_phase { (Point::RunAfterClearedReset, Point::RunAfterResetMatches) } else { (Point::RunAfterResetMatches, Point::RunAfterScan) };
    let nth = rng.range(1, 4 * nheld + 3) as u64;
    let which = rng.below(held.len());
    held[which].publish_at_nth_read(from, to, nth);
    let st = w.tick(*rng.pick(&[0u64, 50]));
    rep.count(&format!("tick.changed={}.running={}", st.changed, st.running));
    wait_no_run_pending(3000);
    let (seen, fired) = disarm_trigger();
    rep.count(if fired { "directed.published-between-two-reads-of-the-run" } else { "directed.publish-trigger-not-reached" });
    rep.max("directed.max-reads-in-phase", seen);
    w.tick(20);
    if rng.coin() {
        w.tick(20);
    }
    for h in held.iter_mut() {
        h.release();
    }
    drop(held);
    finish(w, rep, props, "publish-between-reads");
}

/// restart scenarios (C12)
fn scenario_restart(rng: &mut Rng, id: String, rep: &mut Report, props: &[&str]) {
    let threads = *rng.pick(&[1usize, 2, 4]);
    let mut w = World::new(id, rng, threads, 1, None);
    let k = w.new_injector();
    w.edit(0, *rng.pick(&["o", "", "a", "fo"]));
    let n_old = rng.range(50, 1500);
    w.push_via(k, n_old, true);
    // (restart twice without a tick has the most sub-cases and gets a double share)
    let variant = [0, 1, 2, 2, 3, 4, 5, 6, 2, 7][rng.below(10)];
    let clear = if variant == 2 { rng.chance(1, 4) } else { rng.coin() };
    let mut gap_behind = 0usize;
    // old injectors keep pushing from two threads across all of it
    let stop = Arc::new(AtomicBool::new(false));
    let mut pushers = Vec::new();
    if rng.coin() {
        for _ in 0..2 {
            let stream = w.handles[k].stream;
            *w.aux.lock().unwrap().entry(stream).or_insert(0) += 1;
            let aux = w.aux.clone();
            let inj = w.handles[k].inj.clone();
            stream_handles_add(&w.reg, stream, 1);
            let (reg, invoked, completed, next_id, stop) = (w.reg.clone(), w.invoked.clone(), w.completed.clone(), w.next_id.clone(), stop.clone());
            pushers.push(std::thread::spawn(move || {
                let mut n = 0;
                while !stop.load(Ordering::Relaxed) && n < 4000 {
                    let first = next_id.fetch_add(5, Ordering::Relaxed);
                    inject(&inj, &reg, stream, first, 5, n % 2 == 0, &invoked, &completed);
                    n += 5;
                    std::thread::sleep(Duration::from_micros(100));
                }
                stream_handles_add(&reg, stream, -1);
                drop(inj);
                *aux.lock().unwrap().entry(stream).or_insert(0) -= 1;
            }));
        }
        rep.count("directed.restart-with-old-pushers");
    }
    match variant {
        0 => {
            // a run over the old stream finishes unobserved, then restart, then tick
            let before = hits(Point::RunReturn);
            let st = w.tick(0);
            if st.running {
                wait_hit(Point::RunReturn, before, 2000);
                std::thread::sleep(Duration::from_millis(2));
            }
            w.restart(clear);
            rep.count("directed.restart.run-finished-unobserved");
        }
        1 => {
            // the run is paused before its sort, restart, release, tick
            while w.tick(20).running {}
            w.push_via(k, 300, true);
            pause_at(Point::RunBeforeSort);
            w.tick(0);
            if wait_paused(0, 1500) {
                w.restart(clear);
                w.check_active_injectors("restart while paused");
                release(0);
                rep.count("directed.restart.run-paused-before-sort");
            } else {
                cancel_pause(0);
                w.restart(clear);
                rep.count("directed.phase-not-reached");
            }
        }
        2 => {
            // restart twice without a tick
            while w.tick(20).running {}
            w.restart(clear);
            let k2 = w.new_injector();
            if rng.coin() {
                // a batch that reserves whole buckets it never touches, then an item behind that hole
                let real = rng.range(0, 3);
                let reported = real + *rng.pick(&[100usize, 5000, 40_000]);
                w.push_lying(k2, real, reported);
                gap_behind = reported + 200;
                rep.count("directed.restart.twice-without-tick.stream-with-a-hole");
            }
            w.push_via(k2, 40, false);
            if rng.chance(3, 4) {
                // the matcher becomes the sole owner of that stream before the next restart
                w.drop_injector(k2);
                rep.count("directed.restart.twice-without-tick.sole-owner");
            }
            w.restart(rng.coin());
            rep.count("directed.restart.twice-without-tick");
        }
        3 => {
            // restart before the first tick ever
            w.restart(clear);
            rep.count("directed.restart.before-first-tick");
        }
        5 => {
            // the first run over the new stream is cancelled by a pattern edit while the snapshot still shows the old stream
            // (usually nobody but the snapshot keeps the old stream alive)
            if rng.chance(3, 4) {
                stop.store(true, Ordering::Relaxed);
                for p in pushers.drain(..) {
                    let _ = p.join();
                }
                w.drop_injector(k);
            }
            // (a run only ends as cancelled if its sort is large enough to look at the flag: several thousand matches)
            if w.texts[0].is_empty() {
                w.edit(0, *rng.pick(&["o", "a"]));
            }
            while w.tick(20).running {}
            w.restart(false);
            let k2 = w.new_injector();
            let n = if rng.chance(2, 3) { rng.range(5000, 12000) } else { rng.range(1, 300) };
            w.push_via(k2, n, true);
            wait_no_run_pending(2000);
            let phase = *rng.pick(&[Point::RunEntry, Point::RunAfterResetMatches, Point::RunAfterScan, Point::RunBeforeSort]);
            pause_at(phase);
            let st = w.tick(0);
            rep.count(&format!("tick.changed={}.running={}", st.changed, st.running));
            if wait_paused(0, 1500) {
                let t = format!("{}{}", w.texts[0], rng.pick(&['o', 'a']));
                if rng.coin() {
                    w.edit(0, &t);
                } else {
                    w.edit(0, *rng.pick(&["b", "x", ""]));
                }
                // the run that the cancelling tick spawns is held at its entry: the tick's second phase times out and the
                // state between "cancelled run discarded" and "new results picked up" stays observable
                let hold_next = rng.chance(2, 3);
                let timeout = if hold_next { 0 } else { 10 };
                let ticked = std::thread::scope(|s| {
                    let wref = &mut w;
                    let h = s.spawn(move || wref.tick(timeout));
                    std::thread::sleep(Duration::from_micros(300 + rng.below(3000) as u64));
                    if hold_next {
                        release_to(0, Some(Point::RunEntry));
                    } else {
                        release(0);
                    }
                    h.join().unwrap()
                });
                if hold_next {
                    if !wait_paused(0, 300) {
                        cancel_pause(0);
                    }
                    release(0);
                }
                rep.count(&format!("tick.changed={}.running={}", ticked.changed, ticked.running));
                rep.count("directed.restart.first-run-on-the-new-stream-cancelled");
            } else {
                cancel_pause(0);
                rep.count("directed.phase-not-reached");
            }
        }
        7 => {
            // the new stream has the same number of items and of matches as the old one, under the same pattern, but at
            // other positions (the same texts in reverse order)
            stop.store(true, Ordering::Relaxed);
            for p in pushers.drain(..) {
                let _ = p.join();
            }
            if w.texts[0].is_empty() {
                w.edit(0, *rng.pick(&["o", "a", "f"]));
            }
            w.restart(true);
            let period = (35 * 4 * 12) as u32;
            let n = rng.range(3, 40) as u32;
            let ka = w.new_injector();
            let base = (w.alloc_ids(period * 2) / period + 1) * period;
            inject(&w.handles[ka].inj, &w.reg, w.cur, base, n as usize, true, &w.invoked, &w.completed);
            while w.tick(30).running {}
            w.restart(false);
            let kb = w.new_injector();
            let base2 = (w.alloc_ids(period * 2) / period + 1) * period;
            for i in (0..n).rev() {
                inject(&w.handles[kb].inj, &w.reg, w.cur, base2 + i, 1, false, &w.invoked, &w.completed);
            }
            let mut g = 0;
            while w.tick(30).running && g < 200 {
                g += 1;
            }
            let (_, expected) = w.expected_quiescent();
            let got: Vec<(u32, u32)> = w.nucleo.as_ref().unwrap().snapshot().matches().iter().map(|m| (m.score, m.idx)).collect();
            if got != expected {
                let msg = format!(
                    "after restart(false) and {n} new items (same texts as the old stream, reversed) the quiescent snapshot has matches {:?}..., the new stream gives {:?}...",
                    &got[..got.len().min(6)],
                    &expected[..expected.len().min(6)]
                );
                w.problem("C12", "new-stream-results-wrong-after-restart", msg);
            }
            rep.count("directed.restart.same-counts-other-positions");
        }
        6 => {
            // an empty new stream with exactly one injector whose first run is not picked up, then another restart: the
            // injector of the abandoned stream keeps pushing
            while w.tick(20).running {}
            w.restart(false);
            let k_old = w.new_injector();
            wait_no_run_pending(2000);
            pause_at(Point::RunEntry);
            let st = w.tick(0);
            rep.count(&format!("tick.changed={}.running={}", st.changed, st.running));
            if !wait_paused(0, 1500) {
                cancel_pause(0);
            }
            release(0);
            wait_no_run_pending(2000);
            w.restart(rng.coin());
            w.check_active_injectors("restart of an untouched stream");
            w.push_via(k_old, rng.range(1, 5), false);
            rep.count("directed.restart.untouched-stream-with-one-injector");
        }
        _ => {
            while w.tick(20).running {}
            w.restart(clear);
            rep.count("directed.restart.quiescent");
        }
    }
    rep.count(if clear { "restarts.clear" } else { "restarts.keep" });
    w.check_active_injectors("restart");
    // new stream
    let k2 = w.new_injector();
    w.check_active_injectors("injector after restart");
    let k2 = k2.min(w.handles.len() - 1);
    let timeout = *rng.pick(&[0u64, 0, 20, 200]);
    // ticks before anything was injected into the new stream
    let st = w.tick(timeout);
    rep.count(&format!("tick.changed={}.running={}", st.changed, st.running));
    // (after a stream with a hole: enough items to grow past where the hole ended)
    let n_new = rng.range(1, 400) + gap_behind;
    w.push_via(k2, n_new, rng.coin());
    for _ in 0..rng.range(1, 4) {
        let st = w.tick(timeout);
        rep.count(&format!("tick.changed={}.running={}", st.changed, st.running));
        // the old handle keeps accepting items without any effect
        if k < w.handles.len() {
            w.push_via(k, 3, false);
        }
    }
    stop.store(true, Ordering::Relaxed);
    for p in pushers {
        let _ = p.join();
    }
    rep.count("directed.restart");
    finish(w, rep, props, &format!("restart-variant-{variant}-clear-{clear}"));
}

/// incremental edits: texts grown character by character with every marker / escape in last position
fn scenario_typing(rng: &mut Rng, id: String, rep: &mut Report, props: &[&str]) {
    let threads = *rng.pick(&[1usize, 2, 4]);
    let cols = rng.range(1, 2);
    let mut w = World::new(id, rng, threads, cols, None);
    let k = w.new_injector();
    let n0 = rng.range(30, 400);
    w.push_via(k, n0, true);
    const SCRIPTS: &[&str] = &[
        "foo$a", "foo$ab", "a\\ b", "a\\b", "foo\\$a", "!foo", "a !b", "^fo", "'ab", "fo o$", "$a", "\\ ", "a\\\\ b", "foo$ ", "^foo$x", "o$", "b a\\", "!a\\ b",
    ];
    let script: Vec<char> = rng.pick(SCRIPTS).chars().collect();
    let col = rng.below(cols);
    for i in 1..=script.len() {
        let t: String = script[..i].iter().collect();
        w.edit(col, &t);
        match rng.below(4) {
            0 => {
                // several keystrokes between two ticks
            }
            1 => {
                w.tick(0);
            }
            _ => {
                let mut g = 0;
                while w.tick(20).running && g < 50 {
                    g += 1;
                }
            }
        }
        if rng.chance(1, 4) {
            w.push_via(k, rng.range(1, 30), rng.coin());
        }
    }
    // some deletions
    if rng.coin() {
        for i in (0..script.len()).rev().take(rng.range(1, 3)) {
            let t: String = script[..i].iter().collect();
            w.edit(col, &t);
            if rng.coin() {
                w.tick(10);
            }
        }
    }
    rep.count("directed.typing");
    finish(w, rep, props, &format!("typing {:?}", script.iter().collect::<String>()));
}

/// restart(true) right after a snapshot with more than 2^20 matches (buffers of that size are where shrinking / reuse
/// policies live); plain items, no hooks
fn huge_snapshot_restart(rep: &mut Report) {
    let n: u32 = (1 << 20) + 4096;
    let mut nucleo: Nucleo<u32> = Nucleo::new(Config::DEFAULT, Arc::new(|| ()), Some(4), 1);
    let inj = nucleo.injector();
    let mut next = 0u32;
    while next < n {
        let end = (next + 65_536).min(n);
        inj.extend(next..end, |v, cols| cols[0] = if v % 2 == 0 { "ab".into() } else { "b".into() });
        next = end;
    }
    let mut guard = 0;
    while nucleo.tick(100).running && guard < 600 {
        guard += 1;
    }
    let before = nucleo.snapshot().matched_item_count();
    rep.count("directed.huge-snapshot-restarts");
    rep.max("directed.max-matches-in-a-snapshot", before as u64);
    if before != n {
        rep.inconclusive(format!("huge snapshot scenario: {before} of {n} items matched by the empty pattern after {guard} ticks"));
        return;
    }
    nucleo.restart(true);
    let snap = nucleo.snapshot();
    if snap.matched_item_count() != 0 || snap.item_count() != 0 || !snap.matches().is_empty() {
        rep.violation(
            "C12",
            "snapshot-not-cleared",
            "huge snapshot".into(),
            jobj! {"problem" => format!("restart(true) after a snapshot with {n} matches: matched_item_count {}, item_count {}, matches().len() {}",
                                       snap.matched_item_count(), snap.item_count(), snap.matches().len()),
                   "case_id" => "huge-snapshot"},
        );
    }
    let inj2 = nucleo.injector();
    for v in [7u32, 8, 9] {
        inj2.push(v, |_, cols| cols[0] = "new".into());
    }
    drop(inj);
    guard = 0;
    while nucleo.tick(100).running && guard < 600 {
        guard += 1;
    }
    let snap = nucleo.snapshot();
    let items: Vec<u32> = snap.matched_items(..).map(|it| *it.data).collect();
    if items != [7, 8, 9] || snap.item_count() != 3 {
        rep.violation(
            "C12",
            "old-stream-after-restart",
            "huge snapshot".into(),
            jobj! {"problem" => format!("after the restart the snapshot holds {} matches / item_count {} instead of the three new items (first: {:?})", items.len(), snap.item_count(), &items[..items.len().min(5)]),
                   "case_id" => "huge-snapshot"},
        );
    }
}

/// The destructor of one user item panics while the library lets go of an old stream on the control thread - inside the tick
/// that publishes the first run over the new stream (the snapshot was the last owner after restart(false)), or inside
/// restart(true) (the snapshot is cleared while it is the last owner). The caller catches the unwind and goes on using the
/// matcher: everything it observes afterwards has to be as consistent as without the panic, and no item is destroyed twice
/// (items behind the panicking one may never be destroyed - that is a leak, not a violation of "at most once").
fn scenario_destructor_panics(rng: &mut Rng, id: String, rep: &mut Report, props: &[&str]) {
    use std::panic::{catch_unwind, AssertUnwindSafe};
    let threads = *rng.pick(&[1usize, 2, 4]);
    reset_ctl(true);
    let mut w = World::new(id, rng, threads, 1, None);
    let k = w.new_injector();
    w.edit(0, *rng.pick(&["o", "", "a"]));
    let n_old = rng.range(3, 60);
    let first_old = w.next_id.load(Ordering::Relaxed);
    w.push_via(k, n_old, rng.coin());
    let mut g = 0;
    while w.tick(50).running && g < 100 {
        g += 1;
    }
    let inside_restart = rng.chance(1, 3);
    w.restart(false);
    while !w.handles.is_empty() {
        w.drop_injector(0);
    }
    let k2 = w.new_injector();
    let n_new = if rng.coin() { rng.range(1, n_old.max(2) - 1) } else { n_old + rng.range(1, 20) };
    w.push_via(k2, n_new, rng.coin());
    w.edit(0, *rng.pick(&["f", "b", "oo"]));
    for i in first_old..first_old + n_old as u32 {
        w.reg.leak_ok[i as usize].store(true, Ordering::Relaxed);
    }
    let victim = first_old + rng.below(n_old) as u32;
    let mut unwound = false;
    if inside_restart {
        // the worker moves on to the new stream and is held at the entry of its run: the retained snapshot is the last owner
        pause_at(Point::RunEntry);
        let st = w.n().tick(0);
        if !st.running || !wait_paused(0, 2000) {
            rep.count("directed.destructor-panic.not-reached");
            cancel_pause(0);
            release_all();
            finish(w, rep, props, "destructor-panics");
            return;
        }
        w.note("tick(0): the run over the new stream is held at its entry".into());
        w.reg.panic_on_drop[victim as usize].store(true, Ordering::Relaxed);
        w.note(format!("the destructor of item id {victim} (old stream) is armed to panic"));
        let old = w.cur;
        stream_handles_add(&w.reg, old, -1);
        unwound = catch_unwind(AssertUnwindSafe(|| w.n().restart(true))).is_err();
        w.cur += 1;
        stream_handles_add(&w.reg, w.cur, 1);
        w.frozen = None;
        w.snap_stream = None;
        w.has_hole = false;
        w.note(format!("restart(true) stream {old} -> {} (unwound: {unwound})", w.cur));
        release(0);
        let _k3 = w.new_injector();
        w.check_active_injectors("restart(true) that unwound from a user destructor, then injector()");
        if rng.coin() {
            w.new_injector();
            w.check_active_injectors("a second injector()");
        }
        let k3 = w.handles.len() - 1;
        w.push_via(k3, rng.range(1, 30), rng.coin());
        rep.count("directed.destructor-panic.inside-restart");
    } else {
        w.reg.panic_on_drop[victim as usize].store(true, Ordering::Relaxed);
        w.note(format!("the destructor of item id {victim} (old stream) is armed to panic"));
        for _ in 0..40 {
            let r = catch_unwind(AssertUnwindSafe(|| w.n().tick(50)));
            if r.is_err() {
                unwound = true;
                w.note("tick(50) unwound from the destructor of a user item; the caller goes on".into());
                break;
            }
            if w.reg.drops[victim as usize].load(Ordering::Relaxed) > 0 {
                break;
            }
        }
        rep.count("directed.destructor-panic.inside-tick");
    }
    if unwound {
        rep.count("directed.destructor-panic.unwound-through-the-api");
    }
    w.reg.panic_on_drop[victim as usize].store(false, Ordering::Relaxed);
    // from here on: ordinary use, every tick is checked as usual
    let mut g = 0;
    while w.tick(30).running && g < 200 {
        g += 1;
    }
    w.check_active_injectors("after the unwound call");
    let (_, expected) = w.expected_quiescent();
    let got: Vec<(u32, u32)> = w.nucleo.as_ref().unwrap().snapshot().matches().iter().map(|m| (m.score, m.idx)).collect();
    if got != expected {
        let msg = format!(
            "after a user destructor panicked while the old stream was released (unwound: {unwound}) the quiescent snapshot has {} matches {:?}..., the new stream gives {} {:?}...",
            got.len(),
            &got[..got.len().min(5)],
            expected.len(),
            &expected[..expected.len().min(5)]
        );
        w.problem("C12", "new-stream-results-wrong-after-restart", msg);
    }
    let twice = w.reg.double_drop.load(Ordering::Relaxed) + w.reg.bad_canary.load(Ordering::Relaxed);
    if twice > 0 {
        w.problem("C11", "payload-dropped-twice", format!("{twice} destructor calls on items that had been destroyed already"));
    }
    finish(w, rep, props, "destructor-panics");
}

pub fn run_directed(opts: &Opts, rep: &mut Report, props: &[&str]) {
    if opts.shard == 0 && opts.replay.is_none() && !opts.small && props.contains(&"C12") && !cfg!(miri) {
        huge_snapshot_restart(rep);
    }
    set_hook(Some(worker_hook));
    set_delays(opts.delays);
    let range: Box<dyn Iterator<Item = u64>> = match opts.replay {
        Some(i) => Box::new(i..i + 1),
        None => Box::new(0..opts.cases),
    };
    for idx in range {
        if rep.elapsed() > opts.time_limit {
            rep.note(format!("time limit reached after {idx} scenarios"));
            break;
        }
        let mut rng = Rng::new(mix(&[opts.seed, opts.shard, idx, 66]));
        reset_ctl(false);
        let id = format!("{}:{}:{}", opts.seed, opts.shard, idx);
        match idx % 8 {
            0 | 1 => scenario_two_in_flight(&mut rng, id, rep, props),
            2 => scenario_cancel_mid_run(&mut rng, id, rep, props),
            3 | 4 => scenario_restart(&mut rng, id, rep, props),
            5 if (idx / 8) % 2 == 0 => scenario_destructor_panics(&mut rng, id, rep, props),
            6 => scenario_publish_between_reads(&mut rng, id, rep, props),
            7 => scenario_update_config_mid_run(&mut rng, id, rep, props),
            _ => scenario_typing(&mut rng, id, rep, props),
        }
        rep.count("histories");
        rep.distinct(mix(&[opts.seed, opts.shard, idx]));
        if rep.want_sample() && idx % 5 == 0 {
            rep.sample(jobj! {"scenario" => ["two-in-flight", "two-in-flight", "cancel-mid-run", "restart", "restart", "typing", "publish-between-reads", "update-config-mid-run"][(idx % 8) as usize],
                "case_id" => format!("{}:{}:{}", opts.seed, opts.shard, idx)});
        }
    }
    set_delays(false);
    set_hook(None);
}

// ---------------------------------------------------------------------------------- C13

struct Ticker {
    result: Arc<Mutex<Option<(u64, u64, Status)>>>,
    handle: Option<std::thread::JoinHandle<World>>,
}

fn spawn_tick(mut w: World, timeout: u64) -> Ticker {
    let result = Arc::new(Mutex::new(None));
    let r2 = result.clone();
    let handle = std::thread::spawn(move || {
        let begin = stamp();
        let st = w.n().tick(timeout);
        let end = stamp();
        *r2.lock().unwrap() = Some((begin, end, st));
        w
    });
    Ticker { result, handle: Some(handle) }
}

/// the eight orderings of {worker: read flag (R), unlock (U)} against {tick: clear (C), try-lock (L), re-arm (A)}
const ORDERINGS: &[&str] = &["R U C L", "R C U L", "C R U L", "C R L U A", "C R L A U", "C L R A U", "C L A R U", "R C L A U", "C L A return R U", "C R L A (tick goes on, worker held) U", "R C L A (tick goes on, worker held) U"];

fn c13_schedule(order: usize, empty_pattern: bool, age: u32, rng: &mut Rng, id: String, rep: &mut Report) {
    let threads = *rng.pick(&[1usize, 2]);
    reset_ctl(true);
    if age > 0 {
        crate::m_worker::REG_CAP.store(1 << 17, Ordering::Relaxed);
    }
    let mut w = World::new(id.clone(), rng, threads, 1, None);
    crate::m_worker::REG_CAP.store(1 << 16, Ordering::Relaxed);
    let mut k = w.new_injector();
    if age > 0 {
        // a long-lived instance: `age` earlier background runs (one item each, empty pattern, the stream cleared now and
        // then so that the snapshots stay small)
        let before = hits(Point::RunEntry);
        for i in 0..age {
            if i % 2048 == 2047 {
                w.restart(true);
                k = w.new_injector();
            }
            let first = w.alloc_ids(1);
            let stream = w.handles[k].stream;
            inject(&w.handles[k].inj, &w.reg, stream, first, 1, false, &w.invoked, &w.completed);
            let mut g = 0;
            while w.n().tick(50).running && g < 100 {
                g += 1;
            }
        }
        w.note(format!("{age} push+tick cycles on this instance beforehand"));
        let runs = hits(Point::RunEntry) - before;
        if runs >= 65536 {
            rep.count("c13.schedules-on-an-instance-with-65536+-earlier-runs");
        }
        let mut g = 0;
        while w.tick(50).running && g < 100 {
            g += 1;
        }
    }
    if !empty_pattern {
        w.edit(0, "o");
    }
    w.push_via(k, rng.range(20, 200), true);
    let mut g = 0;
    while w.n().tick(50).running && g < 100 {
        g += 1;
    }
    // every other schedule: one writer stays between reserving its index and publishing the item for the whole schedule, so that
    // the runs involved end with an unpublished index on their list (they still have to notify)
    let held = if rng.coin() {
        rep.count("c13.schedules-with-an-item-in-flight");
        Some(HeldWriter::start(&mut w, k))
    } else {
        None
    };
    // a run that will be held at its notification decision
    w.push_via(k, rng.range(5, 60), false);
    pause_at(Point::RunBeforeNotifyCheck);
    let st1 = w.n().tick(0);
    if !st1.running || !wait_paused(0, 2000) {
        rep.count("c13.schedule-not-reached");
        cancel_pause(0);
        release_all();
        w.shutdown();
        return;
    }
    let notifies_before = w.notify_count.load(Ordering::SeqCst);
    let _ = notifies_before;
    let name = ORDERINGS[order];
    let mut reached = true;
    let returns_before = hits(Point::RunReturn);
    // the second tick runs on its own thread so that both sides can be stepped
    let ticker: Ticker;
    let wait_unlock = |returns_before: u64| {
        let ok = wait_hit(Point::RunReturn, returns_before, 2000);
        std::thread::sleep(Duration::from_millis(3));
        ok
    };
    match order {
        0 => {
            // R U C L: worker completely done before the tick begins
            release(0);
            reached &= wait_unlock(returns_before);
            ticker = spawn_tick(w, 0);
        }
        1 => {
            // R C U L
            release_to(0, Some(Point::RunAfterNotify));
            reached &= wait_paused(0, 2000);
            pause_at(Point::TickAfterClearNotify);
            ticker = spawn_tick(w, 0);
            reached &= wait_paused(1, 2000);
            release(0);
            reached &= wait_unlock(returns_before);
            release(1);
        }
        2 => {
            // C R U L
            pause_at(Point::TickAfterClearNotify);
            ticker = spawn_tick(w, 0);
            reached &= wait_paused(1, 2000);
            release(0);
            reached &= wait_unlock(returns_before);
            release(1);
        }
        3 | 4 => {
            // C R L(fail) then U A (3) or A U (4)
            pause_at(Point::TickAfterClearNotify);
            ticker = spawn_tick(w, 0);
            reached &= wait_paused(1, 2000);
            release_to(0, Some(Point::RunAfterNotify));
            reached &= wait_paused(0, 2000);
            release_to(1, Some(Point::TickTryLockFailed));
            reached &= wait_paused(1, 2000);
            if order == 3 {
                release(0);
                reached &= wait_unlock(returns_before);
                release(1);
            } else {
                release_to(1, Some(Point::TickAfterRearm));
                reached &= wait_paused(1, 2000);
                release(0);
                reached &= wait_unlock(returns_before);
                release(1);
            }
        }
        5 => {
            // C L(fail) R A U
            pause_at(Point::TickTryLockFailed);
            ticker = spawn_tick(w, 0);
            reached &= wait_paused(1, 2000);
            release_to(0, Some(Point::RunAfterNotify));
            reached &= wait_paused(0, 2000);
            release_to(1, Some(Point::TickAfterRearm));
            reached &= wait_paused(1, 2000);
            release(0);
            reached &= wait_unlock(returns_before);
            release(1);
        }
        6 => {
            // C L(fail) A R U
            pause_at(Point::TickAfterRearm);
            ticker = spawn_tick(w, 0);
            reached &= wait_paused(1, 2000);
            release(0);
            reached &= wait_unlock(returns_before);
            release(1);
        }
        8 => {
            // C L(fail) A and the tick returns, only then R U: the plain "still running" case
            ticker = spawn_tick(w, 0);
            let deadline = Instant::now() + Duration::from_secs(2);
            while ticker.result.lock().unwrap().is_none() && Instant::now() < deadline {
                std::thread::sleep(Duration::from_micros(200));
            }
            reached &= ticker.result.lock().unwrap().is_some();
            release(0);
            reached &= wait_unlock(returns_before);
        }
        9 | 10 => {
            // the worker has taken its decision and keeps holding the lock for a while (e.g. a slow
            // notify callback) while the tick goes on after re-arming: the tick must not report
            // `running` (nobody would notify any more), it has to wait for the results
            if order == 9 {
                pause_at(Point::TickAfterClearNotify);
                ticker = spawn_tick(w, 0);
                reached &= wait_paused(1, 2000);
                release_to(0, Some(Point::RunAfterNotify));
                reached &= wait_paused(0, 2000);
                release_to(1, Some(Point::TickAfterRearm));
                reached &= wait_paused(1, 2000);
            } else {
                release_to(0, Some(Point::RunAfterNotify));
                reached &= wait_paused(0, 2000);
                pause_at(Point::TickAfterRearm);
                ticker = spawn_tick(w, 0);
                reached &= wait_paused(1, 2000);
            }
            release(1);
            // steering delay only: longer than any bounded retry a tick with timeout 0 could make
            std::thread::sleep(Duration::from_millis(25));
            release(0);
            reached &= wait_unlock(returns_before);
        }
        _ => {
            // R C L(fail) A U: the worker took its decision before the tick began
            release_to(0, Some(Point::RunAfterNotify));
            reached &= wait_paused(0, 2000);
            pause_at(Point::TickAfterRearm);
            ticker = spawn_tick(w, 0);
            reached &= wait_paused(1, 2000);
            release(0);
            reached &= wait_unlock(returns_before);
            release(1);
        }
    }
    release_all();
    let mut ticker = ticker;
    let mut w = ticker.handle.take().unwrap().join().unwrap();
    let (begin, _end, st) = ticker.result.lock().unwrap().take().unwrap();
    // with a repaired tick the steps after a failed try-lock may not exist any more: that is fine,
    // `reached` only says whether the forced order was observed as planned
    rep.count(if reached { "c13.orderings-forced-as-planned" } else { "c13.orderings-not-as-planned" });
    rep.count(&format!("c13.ordering[{name}]"));
    rep.count(&format!("c13.tick2.running={}", st.running));
    // wait until every spawned run has passed its (single) notification decision point
    let deadline = Instant::now() + Duration::from_secs(3);
    loop {
        let (spawned, returned) = (hits(Point::TickBeforeSpawn), hits(Point::RunReturn));
        if spawned <= returned {
            break;
        }
        if Instant::now() > deadline {
            rep.count("c13.runs-still-pending(inconclusive)");
            w.shutdown();
            return;
        }
        std::thread::sleep(Duration::from_micros(300));
    }
    std::thread::sleep(Duration::from_millis(2));
    let events = with_ctl(|c| c.events.clone());
    let notified_after = events.iter().any(|(s, k)| *k == EvKind::Notify && *s > begin);
    rep.count("c13.schedules-judged");
    if st.running && !notified_after {
        let tail: Vec<J> = events.iter().rev().take(40).rev().map(|(s, k)| J::Str(format!("{s}: {k:?}"))).collect();
        rep.violation(
            "C13",
            "lost-wake-up",
            format!("ordering[{name}]"),
            jobj! {"problem" => format!("tick returned running=true at stamp {begin} but no notify was issued after it began although every background run has passed its notification decision"),
                   "ordering" => name, "empty_pattern" => empty_pattern, "case_id" => id, "tick_begin_stamp" => begin, "events_tail" => J::Arr(tail)},
        );
    }
    // the event loop would now be stuck; finish the history normally
    drop(held);
    while !w.handles.is_empty() {
        w.drop_injector(0);
    }
    let mut g = 0;
    while w.n().tick(50).running && g < 100 {
        g += 1;
    }
    w.shutdown();
}

/// a run whose result has exactly as many matches as the previous one must still notify
fn c13_same_count(rng: &mut Rng, id: String, rep: &mut Report) {
    reset_ctl(true);
    let threads = *rng.pick(&[1usize, 2]);
    let mut w = World::new(id.clone(), rng, threads, 1, None);
    let empty = rng.coin();
    if !empty {
        w.edit(0, "o");
    }
    let k = w.new_injector();
    let n = rng.range(3, 40);
    // ids chosen so that the same texts (hence the same number of matches) can be injected again
    let first = w.alloc_ids(n as u32);
    inject(&w.handles[k].inj, &w.reg, 0, first, n, true, &w.invoked, &w.completed);
    let mut g = 0;
    while w.n().tick(50).running && g < 100 {
        g += 1;
    }
    let matched_before = w.nucleo.as_ref().unwrap().snapshot().matched_item_count();
    let variant = rng.below(4);
    let begin;
    let st;
    let mut still_held: Option<HeldWriter> = None;
    match variant {
        3 => {
            // a writer stays parked inside its fill callback: every tick leaves a run behind (the item count is below
            // the number of reserved indices) although neither the pattern nor the set of visible items changes from
            // run to run - the promise of the tick stands for the second and third such run as well
            let hw = HeldWriter::start(&mut w, k);
            for _ in 0..rng.range(1, 3) {
                w.n().tick(30);
                wait_no_run_pending(2000);
            }
            if rng.coin() {
                pause_at(Point::RunEntry);
            }
            begin = record_event(EvKind::TickBegin);
            st = w.n().tick(0);
            if !wait_paused(0, 300) {
                cancel_pause(0);
            }
            release(0);
            still_held = Some(hw);
        }
        0 | 1 => {
            // new stream with the same number of (matching) items, snapshot retained or cleared
            w.restart(variant == 1);
            let k2 = w.new_injector();
            let stream = w.cur;
            // same texts: item_text only depends on id modulo the corpus length
            let period = (35 * 4 * 12) as u32; // multiple of every period used by item_text
            let base = (w.alloc_ids(period * 2) / period + 1) * period + first % period;
            inject(&w.handles[k2].inj, &w.reg, stream, base, n, true, &w.invoked, &w.completed);
            wait_no_run_pending(2000);
            // hold the new run at its entry so that the tick cannot wait it out
            pause_at(Point::RunEntry);
            begin = record_event(EvKind::TickBegin);
            st = w.n().tick(0);
            if !wait_paused(0, 1500) {
                cancel_pause(0);
            }
            release(0);
        }
        _ => {
            // an item that is in flight across two runs, then published
            let mut hw = HeldWriter::start(&mut w, k);
            w.n().tick(30);
            w.n().tick(30);
            hw.release();
            wait_no_run_pending(2000);
            pause_at(Point::RunEntry);
            begin = record_event(EvKind::TickBegin);
            st = w.n().tick(0);
            if !wait_paused(0, 300) {
                cancel_pause(0);
            }
            release(0);
        }
    }
    rep.count(&format!("c13.same-count.variant{variant}.running={}", st.running));
    // wait until every spawned run has passed its notification decision
    let ok = wait_no_run_pending(3000) || w.runs_finished_barrier(3000);
    // (the notification of the writer's own push comes later and must not be mistaken for the run's)
    let events_before_release = with_ctl(|c| c.events.len());
    std::thread::sleep(Duration::from_millis(2));
    if !ok {
        rep.count("c13.runs-still-pending(inconclusive)");
    } else {
        rep.count("c13.schedules-judged");
        let mut events = with_ctl(|c| c.events.clone());
        events.truncate(events_before_release);
        let notified_after = events.iter().any(|(s, k)| *k == EvKind::Notify && *s > begin);
        if st.running && !notified_after {
            let tail: Vec<J> = events.iter().rev().take(30).rev().map(|(s, k)| J::Str(format!("{s}: {k:?}"))).collect();
            rep.violation(
                "C13",
                "lost-wake-up",
                format!("same-count variant {variant} empty_pattern={empty}"),
                jobj! {"problem" => format!("tick returned running=true but no notify followed although the background run finished (matches before: {matched_before})"),
                       "case_id" => id, "events_tail" => J::Arr(tail)},
            );
        }
    }
    if let Some(mut hw) = still_held.take() {
        hw.release();
    }
    while !w.handles.is_empty() {
        w.drop_injector(0);
    }
    let mut g = 0;
    while w.n().tick(50).running && g < 100 {
        g += 1;
    }
    w.shutdown();
}

/// `update_config` from the ticking thread while the run that a tick left behind is still in progress: whatever the
/// call does to that run, the promise of the tick (running=true => a notification follows) stands
fn c13_update_config(rng: &mut Rng, id: String, rep: &mut Report) {
    reset_ctl(true);
    let threads = *rng.pick(&[1usize, 2, 4]);
    let mut w = World::new(id.clone(), rng, threads, 1, None);
    let empty = rng.coin();
    if !empty {
        w.edit(0, "o");
    }
    let k = w.new_injector();
    let n = rng.range(3, 400);
    let first = w.alloc_ids(n as u32);
    inject(&w.handles[k].inj, &w.reg, 0, first, n, true, &w.invoked, &w.completed);
    if rng.coin() {
        // earlier results exist; the held run is a later one
        let mut g = 0;
        while w.n().tick(50).running && g < 100 {
            g += 1;
        }
        let more = rng.range(3, 400);
        let first = w.alloc_ids(more as u32);
        inject(&w.handles[k].inj, &w.reg, 0, first, more, rng.coin(), &w.invoked, &w.completed);
        if rng.coin() {
            w.edit(0, if empty { "f" } else { "oo" });
        }
    }
    wait_no_run_pending(2000);
    let phase = *rng.pick(&[Point::RunEntry, Point::RunAfterResetMatches, Point::RunAfterScan, Point::RunBeforeSort, Point::RunAfterSort]);
    pause_at(phase);
    let begin = record_event(EvKind::TickBegin);
    let st = w.n().tick(0);
    record_event(EvKind::TickEnd { changed: st.changed, running: st.running });
    let held = wait_paused(0, 1500);
    if !held {
        cancel_pause(0);
    }
    let delay = Duration::from_micros(200 + rng.below(10_000) as u64);
    let releaser = std::thread::spawn(move || {
        std::thread::sleep(delay);
        release(0);
    });
    w.update_config_same();
    let _ = releaser.join();
    rep.count(&format!("c13.update-config.run-held={held}.running={}", st.running));
    let ok = wait_no_run_pending(3000) || w.runs_finished_barrier(3000);
    std::thread::sleep(Duration::from_millis(2));
    if !ok {
        rep.count("c13.runs-still-pending(inconclusive)");
    } else {
        rep.count("c13.schedules-judged");
        let events = with_ctl(|c| c.events.clone());
        let notified_after = events.iter().any(|(s, k)| *k == EvKind::Notify && *s > begin);
        if st.running && !notified_after {
            let tail: Vec<J> = events.iter().rev().take(30).rev().map(|(s, k)| J::Str(format!("{s}: {k:?}"))).collect();
            rep.violation(
                "C13",
                "lost-wake-up",
                format!("update_config while the run was held at {phase:?}"),
                jobj! {"problem" => "tick returned running=true, update_config was called while that run was in progress, every run has returned and no notify followed the tick",
                       "case_id" => id, "events_tail" => J::Arr(tail)},
            );
        }
    }
    while !w.handles.is_empty() {
        w.drop_injector(0);
    }
    let mut g = 0;
    while w.n().tick(50).running && g < 100 {
        g += 1;
    }
    w.shutdown();
}

/// the ticking thread reacts to a notification with `tick(0)` while the worker is still inside the notify callback (the
/// only code between the worker's look at the notification flag and the end of its decision): if that tick reports
/// `running`, another notification has to follow
fn c13_tick_inside_notify(rng: &mut Rng, id: String, rep: &mut Report) {
    reset_ctl(true);
    let armed = Arc::new(AtomicBool::new(false));
    let inside = Arc::new(AtomicBool::new(false));
    let tick_done = Arc::new(AtomicBool::new(false));
    let (a2, i2, t2) = (armed.clone(), inside.clone(), tick_done.clone());
    let notify: Arc<dyn Fn() + Sync + Send> = Arc::new(move || {
        record_event(EvKind::Notify);
        if a2.swap(false, Ordering::SeqCst) {
            i2.store(true, Ordering::SeqCst);
            let deadline = Instant::now() + Duration::from_millis(150);
            while !t2.load(Ordering::SeqCst) && Instant::now() < deadline {
                std::thread::sleep(Duration::from_micros(200));
            }
        }
    });
    let threads = *rng.pick(&[1usize, 2, 4]);
    let mut w = World::new(id.clone(), rng, threads, 1, Some(notify));
    let empty = rng.coin();
    if !empty {
        w.edit(0, "o");
    }
    let k = w.new_injector();
    let n = rng.range(3, 300);
    let first = w.alloc_ids(n as u32);
    inject(&w.handles[k].inj, &w.reg, 0, first, n, true, &w.invoked, &w.completed);
    if rng.coin() {
        let mut g = 0;
        while w.n().tick(50).running && g < 100 {
            g += 1;
        }
        let more = rng.range(1, 50);
        let first = w.alloc_ids(more as u32);
        inject(&w.handles[k].inj, &w.reg, 0, first, more, rng.coin(), &w.invoked, &w.completed);
    }
    wait_no_run_pending(2000);
    // hold the run at its entry so that the first tick certainly leaves it behind (and arms the notification)
    pause_at(Point::RunEntry);
    armed.store(true, Ordering::SeqCst);
    let st0 = w.n().tick(0);
    if !wait_paused(0, 1500) {
        cancel_pause(0);
    }
    release(0);
    // the run ends and calls notify; wait until the worker sits inside the callback
    let deadline = Instant::now() + Duration::from_secs(3);
    while !inside.load(Ordering::SeqCst) && Instant::now() < deadline {
        std::thread::sleep(Duration::from_micros(200));
    }
    let was_inside = inside.load(Ordering::SeqCst);
    let begin = record_event(EvKind::TickBegin);
    let st = w.n().tick(0);
    record_event(EvKind::TickEnd { changed: st.changed, running: st.running });
    tick_done.store(true, Ordering::SeqCst);
    rep.count(&format!("c13.tick-inside-notify.first-running={}.inside={was_inside}.running={}", st0.running, st.running));
    let ok = wait_no_run_pending(3000) || w.runs_finished_barrier(3000);
    std::thread::sleep(Duration::from_millis(2));
    if !ok {
        rep.count("c13.runs-still-pending(inconclusive)");
    } else if was_inside {
        rep.count("c13.schedules-judged");
        rep.count("c13.ticks-issued-inside-the-notify-callback");
        let events = with_ctl(|c| c.events.clone());
        let notified_after = events.iter().any(|(s, k)| *k == EvKind::Notify && *s > begin);
        if st.running && !notified_after {
            let tail: Vec<J> = events.iter().rev().take(30).rev().map(|(s, k)| J::Str(format!("{s}: {k:?}"))).collect();
            rep.violation(
                "C13",
                "lost-wake-up",
                format!("tick issued while the worker was inside the notify callback, empty_pattern={empty}"),
                jobj! {"problem" => "the tick that reacted to the notification returned running=true (the worker still held its lock inside notify), every run has returned and no further notify followed",
                       "case_id" => id, "events_tail" => J::Arr(tail)},
            );
        }
    }
    while !w.handles.is_empty() {
        w.drop_injector(0);
    }
    let mut g = 0;
    while w.n().tick(50).running && g < 100 {
        g += 1;
    }
    w.shutdown();
}

/// a run that has nothing to do (pattern unchanged, no new items, a writer still parked) ends between a tick's failed lock
/// attempt and the tick re-arming the notification: whichever shortcut such a run takes, it is part of the handshake
fn c13_idle_run_race(rng: &mut Rng, id: String, rep: &mut Report) {
    reset_ctl(true);
    let threads = *rng.pick(&[1usize, 2]);
    let mut w = World::new(id.clone(), rng, threads, 1, None);
    let empty = rng.chance(1, 3);
    if !empty {
        w.edit(0, "o");
    }
    let k = w.new_injector();
    let n = rng.range(3, 60);
    let first = w.alloc_ids(n as u32);
    inject(&w.handles[k].inj, &w.reg, 0, first, n, true, &w.invoked, &w.completed);
    let mut hw = HeldWriter::start(&mut w, k);
    // the worker learns about the parked writer; afterwards every run finds nothing new
    for _ in 0..rng.range(2, 3) {
        w.n().tick(30);
        wait_no_run_pending(2000);
    }
    // run R1 is spawned and held at its entry
    pause_at(Point::RunEntry);
    let st1 = w.n().tick(0);
    let held = wait_paused(0, 1500);
    if !held {
        cancel_pause(0);
    }
    // the next tick clears the flag, fails to take the lock and is held right there; R1 runs to its end meanwhile
    pause_at(Point::TickTryLockFailed);
    let (begin, st2) = std::thread::scope(|s| {
        let wref = &mut w;
        let h = s.spawn(move || {
            let begin = record_event(EvKind::TickBegin);
            let st = wref.n().tick(0);
            record_event(EvKind::TickEnd { changed: st.changed, running: st.running });
            (begin, st)
        });
        let tick_parked = wait_paused(1, 1500);
        release(0);
        // R1 has only microseconds of work left; its last yield point may be skipped by a shortcut, so time decides
        std::thread::sleep(Duration::from_millis(15));
        if !tick_parked {
            cancel_pause(1);
        }
        release(1);
        h.join().unwrap()
    });
    rep.count(&format!("c13.idle-run-race.first-running={}.held={held}.running={}", st1.running, st2.running));
    let ok = wait_no_run_pending(3000) || w.runs_finished_barrier(3000);
    let events_before_release = with_ctl(|c| c.events.len());
    std::thread::sleep(Duration::from_millis(2));
    if !ok {
        rep.count("c13.runs-still-pending(inconclusive)");
    } else if held {
        rep.count("c13.schedules-judged");
        rep.count("c13.idle-runs-ending-inside-a-tick");
        let mut events = with_ctl(|c| c.events.clone());
        events.truncate(events_before_release.max(1));
        let notified_after = events.iter().any(|(s, k)| *k == EvKind::Notify && *s > begin);
        if st2.running && !notified_after {
            let tail: Vec<J> = events.iter().rev().take(30).rev().map(|(s, k)| J::Str(format!("{s}: {k:?}"))).collect();
            rep.violation(
                "C13",
                "lost-wake-up",
                format!("idle run ended inside a tick, empty_pattern={empty}"),
                jobj! {"problem" => "a run with nothing to do ended while a tick sat between its failed lock attempt and re-arming the flag; the tick returned running=true, every run has returned, no notify followed",
                       "case_id" => id, "events_tail" => J::Arr(tail)},
            );
        }
    }
    hw.release();
    while !w.handles.is_empty() {
        w.drop_injector(0);
    }
    let mut g = 0;
    while w.n().tick(50).running && g < 100 {
        g += 1;
    }
    w.shutdown();
}

/// two matchers in one process: matcher Y's run has taken its decision and notified but still holds its lock, an unrelated
/// matcher X starts and finishes a run of its own, then Y is ticked with timeout 0 - the promise of that tick concerns Y alone
fn c13_two_matchers(rng: &mut Rng, id: String, rep: &mut Report) {
    reset_ctl(true);
    let y_notified = Arc::new(AtomicU64::new(0));
    let yn = y_notified.clone();
    let notify_y: Arc<dyn Fn() + Sync + Send> = Arc::new(move || {
        record_event(EvKind::Notify);
        yn.fetch_add(1, Ordering::SeqCst);
    });
    // X's notifications are not recorded as events: they are not Y's
    let notify_x: Arc<dyn Fn() + Sync + Send> = Arc::new(|| ());
    let (ty, tx) = (*rng.pick(&[1usize, 2]), *rng.pick(&[1usize, 2]));
    let mut y = World::new(format!("{id}/y"), rng, ty, 1, Some(notify_y));
    let mut x = World::new(format!("{id}/x"), rng, tx, 1, Some(notify_x));
    if rng.coin() {
        y.edit(0, "o");
    }
    let ky = y.new_injector();
    let n = rng.range(1, 200);
    let first = y.alloc_ids(n as u32);
    inject(&y.handles[ky].inj, &y.reg, 0, first, n, true, &y.invoked, &y.completed);
    wait_no_run_pending(2000);
    // Y's run is held right after its notification decision (it still holds the worker lock)
    pause_at(Point::RunAfterNotify);
    let st0 = y.n().tick(0);
    let held = wait_paused(0, 1500);
    if !held {
        cancel_pause(0);
    }
    // the unrelated matcher starts a run meanwhile: it either runs to completion or is still at its entry when Y is ticked
    let kx = x.new_injector();
    let first = x.alloc_ids(5);
    inject(&x.handles[kx].inj, &x.reg, 0, first, 5, true, &x.invoked, &x.completed);
    let x_held = rng.chance(2, 3);
    if x_held {
        pause_second_run_at(Point::RunEntry);
    }
    let before = hits(Point::RunReturn);
    let stx = x.n().tick(0);
    if x_held {
        if !wait_paused(2, 1500) {
            cancel_pause(2);
        }
    } else if stx.running {
        wait_hit(Point::RunReturn, before, 2000);
    }
    std::thread::sleep(Duration::from_millis(1));
    let notified_before = y_notified.load(Ordering::SeqCst);
    // the tick on Y blocks on Y's worker lock if Y's run already decided: let the run go shortly after
    let delay = Duration::from_micros(500 + rng.below(20_000) as u64);
    let releaser = std::thread::spawn(move || {
        std::thread::sleep(delay);
        release(0);
    });
    let begin = record_event(EvKind::TickBegin);
    let st = y.n().tick(0);
    record_event(EvKind::TickEnd { changed: st.changed, running: st.running });
    let _ = releaser.join();
    release(2);
    rep.count(&format!("c13.two-matchers.first-running={}.held={held}.other-run-held={x_held}.running={}", st0.running, st.running));
    let ok = wait_no_run_pending(3000) || y.runs_finished_barrier(3000);
    std::thread::sleep(Duration::from_millis(2));
    if !ok {
        rep.count("c13.runs-still-pending(inconclusive)");
    } else if held {
        rep.count("c13.schedules-judged");
        rep.count("c13.ticks-on-one-matcher-while-another-ran");
        let notified_after = y_notified.load(Ordering::SeqCst) > notified_before;
        if st.running && !notified_after {
            let events = with_ctl(|c| c.events.clone());
            let tail: Vec<J> = events.iter().rev().take(30).rev().map(|(s, k)| J::Str(format!("{s}: {k:?}"))).collect();
            rep.violation(
                "C13",
                "lost-wake-up",
                "two matchers in one process".into(),
                jobj! {"problem" => "matcher Y's tick returned running=true after an unrelated matcher X had run; every run has returned and Y's notify was not called after that tick began",
                       "case_id" => id, "tick_begin_stamp" => begin, "events_tail" => J::Arr(tail)},
            );
        }
    }
    for w in [&mut x, &mut y] {
        while !w.handles.is_empty() {
            w.drop_injector(0);
        }
        let mut g = 0;
        while w.n().tick(50).running && g < 100 {
            g += 1;
        }
    }
    x.shutdown();
    y.shutdown();
}

/// every push / extend calls notify after the new items are visible
fn c13_injector_clause(rng: &mut Rng, id: String, rep: &mut Report) {
    thread_local! {
        static CURRENT: std::cell::RefCell<Option<(*const nucleo::Injector<Payload>, Vec<u32>)>> = const { std::cell::RefCell::new(None) };
    }
    thread_local! {
        static NOTIFIED: std::cell::Cell<u32> = const { std::cell::Cell::new(0) };
    }
    let problems: Arc<Mutex<Vec<String>>> = Arc::new(Mutex::new(Vec::new()));
    let checked = Arc::new(AtomicU64::new(0));
    let (p2, c2) = (problems.clone(), checked.clone());
    let notify: Arc<dyn Fn() + Sync + Send> = Arc::new(move || {
        CURRENT.with(|c| {
            if let Some((inj, ids)) = c.borrow().as_ref() {
                // we are on a thread that is inside push/extend right now
                let inj = unsafe { &**inj };
                let n = inj.injected_items();
                let mut present: HashSet<u32> = HashSet::new();
                for i in 0..n {
                    if let Some(it) = inj.get(i) {
                        if verify_payload(&it, it.matcher_columns.len()).is_ok() {
                            present.insert(it.data.id);
                        }
                    }
                }
                c2.fetch_add(1, Ordering::Relaxed);
                NOTIFIED.with(|n| n.set(n.get() + 1));
                for id in ids {
                    if !present.contains(id) {
                        p2.lock().unwrap().push(format!("notify called from push/extend but item id {id} of that call is not visible"));
                    }
                }
            }
        });
    });
    let threads = 2;
    let mut w = World::new(id.clone(), rng, threads, 1, Some(notify));
    let k = w.new_injector();
    let mut workers = Vec::new();
    // the callers are plain threads, workers of a thread pool owned by the application and tasks on rayon's global pool
    let silent = Arc::new(Mutex::new(Vec::<String>::new()));
    for t in 0..5u32 {
        let inj = w.handles[k].inj.clone();
        let reg = w.reg.clone();
        let next_id = w.next_id.clone();
        let silent = silent.clone();
        let kind = ["thread", "thread", "thread", "application-pool", "global-pool"][t as usize];
        let body = move || {
            for round in 0..40u32 {
                let n = if (round + t) % 3 == 0 { 7 } else { 1 };
                let first = next_id.fetch_add(n, Ordering::Relaxed);
                let ids: Vec<u32> = (first..first + n).collect();
                CURRENT.with(|c| *c.borrow_mut() = Some((&inj as *const _, ids.clone())));
                let before = NOTIFIED.with(|n| n.get());
                if n == 1 {
                    inj.push(Payload::new(first, 0, &reg), |p, cols| fill_cols(p.id, cols));
                } else {
                    let items: Vec<Payload> = ids.iter().map(|&i| Payload::new(i, 0, &reg)).collect();
                    inj.extend(items.into_iter(), |p, cols| fill_cols(p.id, cols));
                }
                if NOTIFIED.with(|n| n.get()) == before {
                    silent.lock().unwrap().push(format!("{} of {n} items (first id {first}) on a {kind} caller returned without having called notify", if n == 1 { "push" } else { "extend" }));
                }
                CURRENT.with(|c| *c.borrow_mut() = None);
            }
        };
        workers.push(std::thread::spawn(move || match kind {
            "application-pool" => rayon::ThreadPoolBuilder::new().num_threads(2).build().unwrap().install(body),
            "global-pool" => {
                let (tx, rx) = std::sync::mpsc::channel();
                rayon::spawn(move || {
                    body();
                    let _ = tx.send(());
                });
                let _ = rx.recv();
            }
            _ => body(),
        }));
    }
    for _ in 0..10 {
        w.n().tick(1);
    }
    for h in workers {
        let _ = h.join();
    }
    rep.add("c13.injector-notifies-checked", checked.load(Ordering::Relaxed));
    rep.add("c13.injector-calls-from-pool-threads", 80);
    for p in silent.lock().unwrap().iter().take(3) {
        rep.violation("C13", "push-without-notify", p.split(" returned").next().unwrap_or("").split(" on a ").nth(1).unwrap_or("").to_string(), jobj! {"problem" => p.clone(), "case_id" => id.clone()});
    }
    for p in problems.lock().unwrap().iter().take(3) {
        rep.violation("C13", "notify-before-items-visible", "injector".into(), jobj! {"problem" => p.clone(), "case_id" => id.clone()});
    }
    while !w.handles.is_empty() {
        w.drop_injector(0);
    }
    let mut g = 0;
    while w.n().tick(50).running && g < 100 {
        g += 1;
    }
    w.shutdown();
}

fn snap_pattern_of(snap: &nucleo::Snapshot<Payload>) -> String {
    format!("{:?}", snap.pattern().column_pattern(0).atoms)
}

/// an event loop that only ticks when notified; the monitor flags the moment it is stuck
fn c13_event_loop(rng: &mut Rng, id: String, rep: &mut Report) {
    reset_ctl(true);
    let pending = Arc::new((Mutex::new(0u64), Condvar::new()));
    let p2 = pending.clone();
    let notify: Arc<dyn Fn() + Sync + Send> = Arc::new(move || {
        record_event(EvKind::Notify);
        let (m, cv) = &*p2;
        *m.lock().unwrap() += 1;
        cv.notify_all();
    });
    let threads = *rng.pick(&[1usize, 2, 4]);
    let mut w = World::new(id.clone(), rng, threads, 1, Some(notify));
    if rng.coin() {
        w.edit(0, "o");
    }
    let k = w.new_injector();
    let stop = Arc::new(AtomicBool::new(false));
    let mut injs = Vec::new();
    for _ in 0..rng.range(1, 3) {
        let inj = w.handles[k].inj.clone();
        let (reg, next_id, stop) = (w.reg.clone(), w.next_id.clone(), stop.clone());
        let total = rng.range(50, 2000) as u32;
        let seed = rng.next_u64();
        injs.push(std::thread::spawn(move || {
            let mut r = Rng::new(seed);
            let mut done = 0;
            while done < total && !stop.load(Ordering::Relaxed) {
                let n = r.range(1, 40) as u32;
                let first = next_id.fetch_add(n, Ordering::Relaxed);
                let items: Vec<Payload> = (first..first + n).map(|i| Payload::new(i, 0, &reg)).collect();
                inj.extend(items.into_iter(), |p, cols| fill_cols(p.id, cols));
                done += n;
                if r.chance(1, 3) {
                    std::thread::sleep(Duration::from_micros(r.below(300) as u64));
                }
            }
        }));
    }
    // the event loop
    let mut last: Option<(u64, Status)> = None;
    let mut ticks = 0u64;
    let mut idle_rounds = 0;
    let mut injectors_done = false;
    let mut edits_left = rng.range(0, 5);
    let mut config_calls_left = rng.range(0, 3);
    loop {
        let got = {
            let (m, cv) = &*pending;
            let mut g = m.lock().unwrap();
            if *g == 0 {
                let (ng, _) = cv.wait_timeout(g, Duration::from_millis(30)).unwrap();
                g = ng;
            }
            let n = *g;
            *g = 0;
            n
        };
        if got > 0 || last.is_none() {
            idle_rounds = 0;
            if edits_left > 0 && rng.chance(1, 6) {
                // a typed character, or the whole query deleted (possibly while the run for the previous edit is still going)
                let t = if !w.texts[0].is_empty() && rng.chance(1, 3) { String::new() } else { format!("{}{}", w.texts[0], rng.pick(&['o', 'a', ' '])) };
                if t.is_empty() {
                    rep.count("c13.event-loop-query-deleted");
                }
                w.edit(0, &t);
                edits_left -= 1;
            }
            let timeout = *rng.pick(&[0u64, 0, 1, 3, 5]);
            let begin = record_event(EvKind::TickBegin);
            let st = w.n().tick(timeout);
            record_event(EvKind::TickEnd { changed: st.changed, running: st.running });
            last = Some((begin, st));
            ticks += 1;
            if st.running && config_calls_left > 0 && rng.chance(1, 4) {
                config_calls_left -= 1;
                w.update_config_same();
                rep.count("c13.event-loop-update-config-after-running-tick");
            }
            continue;
        }
        // idle: no notification for 30 ms
        if !injectors_done {
            if injs.iter().all(|h| h.is_finished()) {
                injectors_done = true;
            }
            continue;
        }
        idle_rounds += 1;
        let (spawned, returned) = (hits(Point::TickBeforeSpawn), hits(Point::RunReturn));
        if spawned > returned {
            if idle_rounds > 100 {
                rep.count("c13.runs-still-pending(inconclusive)");
                break;
            }
            continue;
        }
        // nothing pending, nothing notified, the loop would sleep forever now
        if idle_rounds >= 2 {
            break;
        }
    }
    stop.store(true, Ordering::Relaxed);
    for h in injs {
        let _ = h.join();
    }
    rep.add("c13.event-loop-ticks", ticks);
    rep.count("c13.event-loops");
    if let Some((begin, st)) = last {
        let events = with_ctl(|c| c.events.clone());
        let notified_after = events.iter().any(|(s, k)| *k == EvKind::Notify && *s > begin);
        if st.running && !notified_after {
            let tail: Vec<J> = events.iter().rev().take(40).rev().map(|(s, k)| J::Str(format!("{s}: {k:?}"))).collect();
            rep.violation(
                "C13",
                "lost-wake-up",
                "event-loop".into(),
                jobj! {"problem" => "the event loop is idle, no run is pending, its last tick reported running=true and no notify followed",
                       "case_id" => id.clone(), "tick_begin_stamp" => begin, "events_tail" => J::Arr(tail)},
            );
        }
        // "an event loop that only ticks when notified always gets to see the finished results": the loop is idle for good now
        // (writers done, no run pending, no notification outstanding); if its last tick said that nothing is running, what it
        // shows is final and has to be the result for everything that was injected and typed
        if !st.running {
            let injected = w.handles[k].inj.injected_items();
            w.invoked.lock().unwrap().insert(w.cur, injected);
            let (_, expected) = w.expected_quiescent();
            let snap = w.nucleo.as_ref().unwrap().snapshot();
            let got: Vec<(u32, u32)> = snap.matches().iter().map(|m| (m.score, m.idx)).collect();
            rep.count("c13.event-loop-final-results-compared");
            if got != expected || snap.item_count() != injected {
                let msg = format!(
                    "the event loop has gone idle after a tick with running=false; its snapshot shows item_count {} and {} matches for pattern {:?}, the finished results are {} items and {} matches for {:?}",
                    snap.item_count(),
                    got.len(),
                    snap_pattern_of(snap),
                    injected,
                    expected.len(),
                    w.texts[0]
                );
                rep.violation("C13", "event-loop-never-saw-the-finished-results", "event-loop".into(), jobj! {"problem" => msg, "case_id" => id.clone()});
            }
        }
    }
    while !w.handles.is_empty() {
        w.drop_injector(0);
    }
    let mut g = 0;
    while w.n().tick(50).running && g < 100 {
        g += 1;
    }
    w.shutdown();
}

pub fn run_c13(opts: &Opts, rep: &mut Report) {
    set_hook(Some(worker_hook));
    let range: Box<dyn Iterator<Item = u64>> = match opts.replay {
        Some(i) => Box::new(i..i + 1),
        None => Box::new(0..opts.cases),
    };
    for idx in range {
        if rep.elapsed() > opts.time_limit {
            rep.note(format!("time limit reached after {idx} schedules"));
            break;
        }
        let mut rng = Rng::new(mix(&[opts.seed, opts.shard, idx, 13]));
        let id = format!("{}:{}:{}", opts.seed, opts.shard, idx);
        set_delays(false);
        match idx % 20 {
            0..=17 => {
                let order = ((idx / 20 * 18 + idx % 20) % 11) as usize;
                let empty = (idx % 20) >= 9;
                // once per shard, on the orderings in which the worker decides between the tick's failed lock attempt and
                // its re-arming: the same schedule on an instance that has already done more than 2^16 runs
                let age = if idx == 4 + opts.shard % 2 && matches!(order, 4 | 5) && !cfg!(miri) { 66_000 } else { 0 };
                c13_schedule(order, empty, age, &mut rng, id, rep);
            }
            18 if (idx / 20) % 6 == 0 => c13_injector_clause(&mut rng, id, rep),
            18 if (idx / 20) % 6 == 1 => c13_update_config(&mut rng, id, rep),
            18 if (idx / 20) % 6 == 2 => c13_tick_inside_notify(&mut rng, id, rep),
            18 if (idx / 20) % 6 == 3 => c13_two_matchers(&mut rng, id, rep),
            18 if (idx / 20) % 6 == 4 => c13_idle_run_race(&mut rng, id, rep),
            18 => c13_same_count(&mut rng, id, rep),
            _ => {
                set_delays(true);
                c13_event_loop(&mut rng, id, rep);
                set_delays(false);
            }
        }
        rep.count("histories");
        rep.distinct(mix(&[opts.seed, opts.shard, idx]));
        if rep.want_sample() && idx % 7 == 0 {
            rep.sample(jobj! {"kind" => if idx % 20 < 18 { format!("directed ordering [{}] empty_pattern={}", ORDERINGS[((idx / 20 * 18 + idx % 20) % 11) as usize], (idx % 20) >= 9) } else if idx % 20 == 18 { ["injector clause", "update_config while a run is held", "tick inside the notify callback", "two matchers", "idle run ends inside a tick", "same match count"][((idx / 20) % 6) as usize].to_string() } else { "event loop with delays".to_string() }});
        }
        let timeouts = with_ctl(|c| std::mem::take(&mut c.pause_timeouts));
        rep.add("pause-timeouts", timeouts);
    }
    set_hook(None);
}

// ---------------------------------------------------------------------------------- C20

pub fn run_c20(opts: &Opts, rep: &mut Report) {
    set_hook(Some(worker_hook));
    let range: Box<dyn Iterator<Item = u64>> = match opts.replay {
        Some(i) => Box::new(i..i + 1),
        None => Box::new(0..opts.cases),
    };
    let mut states: HashSet<(bool, bool, bool, bool)> = HashSet::new();
    for idx in range {
        if rep.elapsed() > opts.time_limit {
            rep.note(format!("time limit reached after {idx} histories"));
            break;
        }
        let mut rng = Rng::new(mix(&[opts.seed, opts.shard, idx, 20]));
        reset_ctl(false);
        let threads = rng.range(1, 2);
        let mut w = World::new(format!("{}:{}:{}", opts.seed, opts.shard, idx), &mut rng, threads, 1, None);
        w.check_active_injectors("new");
        let nsteps = rng.range(3, 40);
        let mut ever_ticked = false;
        let mut restarted_since_tick = false;
        let mut paused = false;
        for _ in 0..nsteps {
            let label;
            match rng.below(100) {
                0..=24 => {
                    w.new_injector();
                    label = "injector()";
                }
                25..=34 if !w.handles.is_empty() => {
                    let k = rng.below(w.handles.len());
                    w.clone_or_clone_from(k, &mut rng);
                    label = "clone";
                }
                35..=54 if !w.handles.is_empty() => {
                    let k = rng.below(w.handles.len());
                    w.drop_injector(k);
                    label = "drop";
                }
                55..=69 => {
                    if paused {
                        release(0);
                        paused = false;
                    }
                    w.restart(rng.coin());
                    restarted_since_tick = true;
                    label = "restart";
                    if rng.chance(1, 3) {
                        // the first tick after the restart times out in its second half: the new run
                        // is held at its entry (holding the worker lock) while the snapshot may still
                        // show the old stream
                        w.check_active_injectors("restart");
                        if rng.coin() {
                            w.new_injector();
                        }
                        // a run spawned by an earlier tick that has not started yet would take the pause
                        wait_no_run_pending(2000);
                        pause_at(Point::RunEntry);
                        let st = w.tick(0);
                        if wait_paused(0, 1000) {
                            rep.count(&format!("c20.first-tick-after-restart-timed-out.running={}", st.running));
                            w.check_active_injectors("tick timing out after restart");
                            if rng.coin() && !w.handles.is_empty() {
                                let k = rng.below(w.handles.len());
                                w.clone_or_clone_from(k, &mut rng);
                                w.check_active_injectors("clone while the run is held");
                            }
                            release(0);
                        } else {
                            cancel_pause(0);
                        }
                        ever_ticked = true;
                        restarted_since_tick = false;
                    }
                }
                70..=79 if !w.handles.is_empty() => {
                    let k = rng.below(w.handles.len());
                    w.push_via(k, rng.range(1, 20), rng.coin());
                    label = "push";
                }
                80..=86 if ever_ticked && !restarted_since_tick && !paused && !w.handles.is_empty() => {
                    // a tick that times out against a paused worker
                    let k = rng.below(w.handles.len());
                    if w.handles[k].stream == w.cur {
                        // make sure no earlier run is still going, otherwise the tick below does not spawn one
                        let mut g = 0;
                        while w.tick(5).running && g < 100 {
                            g += 1;
                        }
                        w.push_via(k, 30, true);
                        pause_at(Point::RunEntry);
                        w.tick(0);
                        if wait_paused(0, 1000) {
                            paused = true;
                            let st = w.tick(0);
                            rep.count(&format!("c20.tick-against-paused-worker.running={}", st.running));
                        } else {
                            cancel_pause(0);
                        }
                    }
                    label = "tick-timeout";
                }
                _ => {
                    if paused && (restarted_since_tick) {
                        release(0);
                        paused = false;
                    }
                    if paused {
                        // non-cancelling tick: returns immediately
                        w.tick(0);
                    } else {
                        w.tick(if rng.coin() { 0 } else { 20 });
                    }
                    ever_ticked = true;
                    restarted_since_tick = false;
                    label = "tick";
                }
            }
            w.check_active_injectors(label);
            if std::env::var_os("C20_TRACE").is_some() {
                eprintln!("{:?} step {label}", std::time::Instant::now());
            }
            rep.count("c20.steps-compared");
            states.insert((ever_ticked, restarted_since_tick, w.snap_stream == Some(w.cur), paused));
        }
        if paused {
            release(0);
        }
        rep.count("histories");
        rep.distinct(mix(&[opts.seed, opts.shard, idx]));
        if rep.want_sample() && idx % 9 == 1 {
            rep.sample(jobj! {"history" => J::Arr(w.trail.iter().take(40).map(|s| J::Str(s.clone())).collect())});
        }
        flush_problems(&mut w, rep, &["C20"], "model");
        let t0 = Instant::now();
        w.shutdown();
        if std::env::var_os("C20_TRACE").is_some() {
            eprintln!("shutdown took {:?}", t0.elapsed());
        }
    }
    rep.add("c20.distinct-model-states", states.len() as u64);
    set_hook(None);
}

// ---------------------------------------------------------------------------------- C09 (Nucleo level, no hooks)

/// injector threads + ticking thread + pool threads; no hook, no shared logs or counters
pub fn run_race(opts: &Opts, rep: &mut Report, items: u32, injectors: usize, pool_threads: usize) {
    let range: Box<dyn Iterator<Item = u64>> = match opts.replay {
        Some(i) => Box::new(i..i + 1),
        None => Box::new(0..opts.cases),
    };
    for idx in range {
        if rep.elapsed() > opts.time_limit {
            break;
        }
        let mut rng = Rng::new(mix(&[opts.seed, opts.shard, idx, 99]));
        let reg = Registry::new((items as usize * injectors + 64).max(256));
        let cols = rng.range(1, 2);
        // every fourth history: a pool with more threads than any fixed-size per-thread table is likely to have
        let pool_threads = if idx % 4 == 3 && !cfg!(miri) { 65 + rng.below(70) } else { pool_threads };
        if pool_threads > 64 {
            rep.count("race.histories-with-more-than-64-pool-threads");
        }
        let mut nucleo: Nucleo<Payload> = Nucleo::new(Config::DEFAULT, Arc::new(|| ()), Some(pool_threads), cols as u32);
        let go = Arc::new(AtomicBool::new(false));
        let mut threads = Vec::new();
        for t in 0..injectors {
            let inj = nucleo.injector();
            let (reg, go) = (reg.clone(), go.clone());
            threads.push(std::thread::spawn(move || {
                while !go.load(Ordering::Relaxed) {
                    std::hint::spin_loop();
                }
                let base = t as u32 * items;
                let mut reads = 0u64;
                let mut i = 0;
                // some writers stay between reserving and publishing for a while (a slow fill callback: half of the columns are
                // written, then a pause without any synchronisation, then the rest), so that background runs - including
                // cancelled ones and their successors - meet entries in that state
                let slow_fill = |p: &Payload, c: &mut [Utf32String]| {
                    if p.id % 3 == 0 {
                        let (first, rest) = c.split_at_mut(c.len() / 2);
                        fill_cols(p.id, first);
                        for _ in 0..(p.id % 7) * 300 {
                            std::hint::spin_loop();
                        }
                        for (k, col) in rest.iter_mut().enumerate() {
                            *col = crate::m_worker::item_text(p.id, first.len() + k).into();
                        }
                    } else {
                        fill_cols(p.id, c);
                    }
                };
                while i < items {
                    if t % 2 == 0 {
                        inj.push(Payload::new(base + i, 0, &reg), slow_fill);
                        i += 1;
                    } else {
                        let n = (items - i).min(9);
                        let batch: Vec<Payload> = (0..n).map(|k| Payload::new(base + i + k, 0, &reg)).collect();
                        inj.extend(batch.into_iter(), slow_fill);
                        i += n;
                    }
                    // lookups through the injector that never touch the counter
                    if let Some(it) = inj.get(i + 40) {
                        if verify_payload(&it, it.matcher_columns.len()).is_ok() {
                            reads += 1;
                        }
                    }
                }
                reads
            }));
        }
        go.store(true, Ordering::Relaxed);
        // replaced texts (rescore) and typed extensions (update of the previous matches)
        let texts = ["o", "oo", "", "a", "a ", "a b", "fo", "foo", "f", "", "o", "o b"];
        let mut ticks = 0u64;
        let mut matched_reads = 0u64;
        let mut last_text = "";
        let total = items * injectors as u32;
        let mut round = 0;
        loop {
            if round % 3 == 1 {
                let t = texts[(round / 3) % texts.len()];
                let append = t.starts_with(last_text) && !last_text.is_empty();
                nucleo.pattern.reparse(0, t, CaseMatching::Smart, Normalization::Smart, append);
                last_text = t;
            }
            if round == 7 {
                nucleo.update_config(Config::DEFAULT.match_paths());
            }
            let st = nucleo.tick(if round % 2 == 0 { 0 } else { 2 });
            ticks += 1;
            let snap = nucleo.snapshot();
            for it in snap.matched_items(..snap.matched_item_count().min(50)) {
                if verify_payload(&it, cols).is_ok() {
                    matched_reads += 1;
                }
            }
            round += 1;
            let done = threads.iter().all(|h| h.is_finished());
            if done && !st.running && snap.item_count() >= total {
                break;
            }
            if round > 4000 {
                break;
            }
        }
        let mut reads = 0;
        for h in threads {
            reads += h.join().unwrap_or(0);
        }
        if rng.coin() {
            nucleo.restart(true);
            nucleo.tick(5);
        }
        drop(nucleo);
        rep.count("race-histories");
        rep.add("race.items-written", total as u64);
        rep.add("race.ticks", ticks);
        rep.add("race.reads-some", reads + matched_reads);
        rep.distinct(mix(&[opts.seed, opts.shard, idx]));
        if rep.want_sample() {
            rep.sample(jobj! {"injector_threads" => injectors, "pool_threads" => pool_threads, "items" => total, "ticks" => ticks, "matched_items_read" => matched_reads});
        }
    }
}
