//! Minimal JSON value + writer (and a tiny reader for replay files).
use std::fmt::Write;

#[derive(Clone, Debug, PartialEq)]
pub enum J {
    Null,
    Bool(bool),
    Int(i64),
    UInt(u64),
    Float(f64),
    Str(String),
    Arr(Vec<J>),
    Obj(Vec<(String, J)>),
}

impl From<&str> for J {
    fn from(v: &str) -> J {
        J::Str(v.to_owned())
    }
}
impl From<String> for J {
    fn from(v: String) -> J {
        J::Str(v)
    }
}
impl From<bool> for J {
    fn from(v: bool) -> J {
        J::Bool(v)
    }
}
impl From<u64> for J {
    fn from(v: u64) -> J {
        J::UInt(v)
    }
}
impl From<u32> for J {
    fn from(v: u32) -> J {
        J::UInt(v as u64)
    }
}
impl From<u16> for J {
    fn from(v: u16) -> J {
        J::UInt(v as u64)
    }
}
impl From<usize> for J {
    fn from(v: usize) -> J {
        J::UInt(v as u64)
    }
}
impl From<i64> for J {
    fn from(v: i64) -> J {
        J::Int(v)
    }
}
impl From<f64> for J {
    fn from(v: f64) -> J {
        J::Float(v)
    }
}
impl<T: Into<J>> From<Vec<T>> for J {
    fn from(v: Vec<T>) -> J {
        J::Arr(v.into_iter().map(Into::into).collect())
    }
}
impl<T: Into<J>> From<Option<T>> for J {
    fn from(v: Option<T>) -> J {
        match v {
            Some(v) => v.into(),
            None => J::Null,
        }
    }
}

#[macro_export]
macro_rules! jobj {
    ($($k:expr => $v:expr),* $(,)?) => {
        $crate::json::J::Obj(vec![$(($k.to_string(), $crate::json::J::from($v))),*])
    };
}

pub fn escape(s: &str, out: &mut String) {
    out.push('"');
    for c in s.chars() {
        match c {
            '"' => out.push_str("\\\""),
            '\\' => out.push_str("\\\\"),
            '\n' => out.push_str("\\n"),
            '\r' => out.push_str("\\r"),
            '\t' => out.push_str("\\t"),
            c if (c as u32) < 0x20 || c == '\u{7f}' || (c as u32 >= 0x80 && !c.is_alphanumeric()) || c as u32 >= 0x10000 => {
                let mut buf = [0u16; 2];
                for u in c.encode_utf16(&mut buf) {
                    let _ = write!(out, "\\u{:04x}", u);
                }
            }
            c => out.push(c),
        }
    }
    out.push('"');
}

impl J {
    pub fn write(&self, out: &mut String) {
        match self {
            J::Null => out.push_str("null"),
            J::Bool(b) => out.push_str(if *b { "true" } else { "false" }),
            J::Int(i) => {
                let _ = write!(out, "{i}");
            }
            J::UInt(i) => {
                let _ = write!(out, "{i}");
            }
            J::Float(f) => {
                if f.is_finite() {
                    let _ = write!(out, "{f:.3}");
                } else {
                    out.push_str("null")
                }
            }
            J::Str(s) => escape(s, out),
            J::Arr(a) => {
                out.push('[');
                for (i, v) in a.iter().enumerate() {
                    if i != 0 {
                        out.push(',');
                    }
                    v.write(out);
                }
                out.push(']');
            }
            J::Obj(o) => {
                out.push('{');
                for (i, (k, v)) in o.iter().enumerate() {
                    if i != 0 {
                        out.push(',');
                    }
                    escape(k, out);
                    out.push(':');
                    v.write(out);
                }
                out.push('}');
            }
        }
    }

    pub fn to_string(&self) -> String {
        let mut s = String::new();
        self.write(&mut s);
        s
    }

    pub fn get(&self, key: &str) -> Option<&J> {
        match self {
            J::Obj(o) => o.iter().find(|(k, _)| k == key).map(|(_, v)| v),
            _ => None,
        }
    }
    pub fn as_u64(&self) -> Option<u64> {
        match self {
            J::UInt(u) => Some(*u),
            J::Int(i) if *i >= 0 => Some(*i as u64),
            _ => None,
        }
    }
    pub fn as_str(&self) -> Option<&str> {
        match self {
            J::Str(s) => Some(s),
            _ => None,
        }
    }
}

/// chars rendered as a JSON friendly string of `U+XXXX` tokens for non printable/non ASCII
pub fn show_chars(cs: &[char]) -> String {
    let mut s = String::new();
    for &c in cs {
        if (c.is_ascii_graphic() || c == ' ') && c != '<' {
            s.push(c)
        } else {
            let _ = write!(s, "<{:X}>", c as u32);
        }
    }
    s
}

/// inverse of [`show_chars`]
pub fn parse_chars(s: &str) -> Vec<char> {
    let mut out = Vec::new();
    let mut it = s.chars().peekable();
    while let Some(c) = it.next() {
        if c == '<' {
            let mut hex = String::new();
            for d in it.by_ref() {
                if d == '>' {
                    break;
                }
                hex.push(d);
            }
            if let Some(c) = u32::from_str_radix(&hex, 16).ok().and_then(char::from_u32) {
                out.push(c)
            }
        } else {
            out.push(c)
        }
    }
    out
}
