//! Vector level monitors on the `BoxcarVec` facade:
//! C08 (linearizable append-only sequence; controlled schedules + free running stress),
//! C09 (race shapes for Miri / TSan: no hook, no shared logs),
//! C11 (exactly-once drop, leaks) at vector level.
use std::collections::HashMap;
use std::panic::{catch_unwind, AssertUnwindSafe};
use std::sync::atomic::{AtomicBool, AtomicI64, AtomicU32, AtomicU64, Ordering};
use std::sync::{Arc, Mutex};

use nucleo::verif::{set_hook, BoxcarVec, Point};
use nucleo::{Item, Utf32String};

use crate::jobj;
use crate::json::J;
use crate::report::Report;
use crate::rng::{mix, Hasher64, Rng};
use crate::sched::{self, run_coroutines, stamp, Policy, P_OP_BEGIN, P_OP_END};

// ---------------------------------------------------------------------------------- payload

pub struct Registry {
    pub drops: Vec<AtomicU32>,
    pub created: Vec<AtomicU32>,
    /// ids that are legitimately dropped while handles are alive (never inserted: the fill
    /// callback panicked for them or the iterator yielded more than it reported)
    pub exempt: Vec<AtomicBool>,
    pub bad_canary: AtomicU32,
    pub double_drop: AtomicU32,
    /// number of live handles that can reach the items
    pub live_handles: AtomicI64,
    pub early_drops: AtomicU32,
    /// armed by a scenario: the destructor of this item panics (once), after all of its bookkeeping
    pub panic_on_drop: Vec<AtomicBool>,
    /// ids that may legitimately never be dropped: items behind a destructor that unwound out of the vector's teardown
    pub leak_ok: Vec<AtomicBool>,
}

impl Registry {
    pub fn new(cap: usize) -> Arc<Registry> {
        Arc::new(Registry {
            drops: (0..cap).map(|_| AtomicU32::new(0)).collect(),
            created: (0..cap).map(|_| AtomicU32::new(0)).collect(),
            exempt: (0..cap).map(|_| AtomicBool::new(false)).collect(),
            bad_canary: AtomicU32::new(0),
            double_drop: AtomicU32::new(0),
            live_handles: AtomicI64::new(0),
            early_drops: AtomicU32::new(0),
            panic_on_drop: (0..cap).map(|_| AtomicBool::new(false)).collect(),
            leak_ok: (0..cap).map(|_| AtomicBool::new(false)).collect(),
        })
    }
}

pub fn canary(id: u32) -> u64 {
    0xC0FF_EE00_0000_0000 | id as u64
}

pub struct Tracked {
    pub id: u32,
    pub canary: u64,
    pub reg: Arc<Registry>,
}

impl Tracked {
    pub fn new(id: u32, reg: &Arc<Registry>) -> Tracked {
        reg.created[id as usize].fetch_add(1, Ordering::Relaxed);
        Tracked {
            id,
            canary: canary(id),
            reg: reg.clone(),
        }
    }
}

impl Drop for Tracked {
    fn drop(&mut self) {
        if self.canary != canary(self.id) {
            self.reg.bad_canary.fetch_add(1, Ordering::Relaxed);
            return;
        }
        if self.reg.drops[self.id as usize].fetch_add(1, Ordering::Relaxed) != 0 {
            self.reg.double_drop.fetch_add(1, Ordering::Relaxed);
        }
        if self.reg.live_handles.load(Ordering::Relaxed) > 0 && !self.reg.exempt[self.id as usize].load(Ordering::Relaxed) {
            self.reg.early_drops.fetch_add(1, Ordering::Relaxed);
        }
        // poison so that a use after drop is recognisable
        unsafe { std::ptr::write_volatile(&mut self.canary, 0xDEAD_DEAD_DEAD_DEAD) };
        if self.reg.panic_on_drop[self.id as usize].swap(false, Ordering::Relaxed) && !std::thread::panicking() {
            panic!("{}", DROP_PANIC);
        }
    }
}

/// message of the panic raised by an armed destructor (the monitor catches it itself)
pub const DROP_PANIC: &str = "user item destructor panics (armed by the monitor)";

/// matcher columns are a pure function of the id so that any reader can verify completeness
pub fn col_text(id: u32, col: usize) -> String {
    match id % 3 {
        0 => format!("item-{id}-c{col}-abcdefghijklmnop"),
        1 => format!("item-{id}\r\nc{col}"),
        _ => format!("\u{e9}t\u{e9}-{id}-c{col}-\u{4e2d}\u{6587}"),
    }
}

pub fn fill(id: u32, cols: &mut [Utf32String]) {
    for (c, col) in cols.iter_mut().enumerate() {
        *col = col_text(id, c).into();
    }
}

/// checks that an item read through any handle is completely written; returns its id
pub fn verify_item(item: &Item<'_, Tracked>, ncols: usize) -> Result<u32, String> {
    let id = item.data.id;
    if item.data.canary != canary(id) {
        return Err(format!("payload canary invalid ({:#x}) for id {id}", item.data.canary));
    }
    if item.matcher_columns.len() != ncols {
        return Err(format!("{} matcher columns instead of {ncols}", item.matcher_columns.len()));
    }
    for (c, col) in item.matcher_columns.iter().enumerate() {
        let expected: Utf32String = col_text(id, c).into();
        if *col != expected {
            return Err(format!("column {c} of id {id} is {col:?}, expected {expected:?}"));
        }
    }
    Ok(id)
}

/// iterator that builds payloads lazily and may lie about its length
pub struct LyingIter {
    pub ids: Vec<u32>,
    pub pos: usize,
    pub reported: usize,
    pub reg: Arc<Registry>,
    pub len_calls: std::cell::Cell<u32>,
}

impl Iterator for LyingIter {
    type Item = Tracked;
    fn next(&mut self) -> Option<Tracked> {
        let id = *self.ids.get(self.pos)?;
        self.pos += 1;
        Some(Tracked::new(id, &self.reg))
    }
}

impl ExactSizeIterator for LyingIter {
    /// the reported length is the answer to the first call; some iterators answer differently when asked again
    /// (a safe trait may do that): nothing may be written on the strength of a later, larger answer
    fn len(&self) -> usize {
        let calls = self.len_calls.get() + 1;
        self.len_calls.set(calls);
        if calls == 1 {
            return self.reported;
        }
        match (self.ids.len() + self.reported) % 3 {
            0 => self.reported + 5,
            1 => self.ids.len().max(self.reported),
            _ => self.reported,
        }
    }
}

// ---------------------------------------------------------------------------------- C08 model

#[derive(Clone, Debug)]
pub enum Op {
    Push { id: u32, mode: u8, arg: u32 },
    Extend { ids: Vec<u32>, reported: usize, panic_at: Option<usize> },
    Get { idx: u32 },
    Count,
    Snapshot { start: u32, par: bool },
}

#[derive(Clone, Debug)]
pub enum Res {
    Push { id: u32, idx: Option<u32> },
    Extend { ids: Vec<u32>, reported: usize, written: usize, panicked: bool },
    Get { idx: u32, got: Option<u32> },
    Count { n: u32 },
    /// items: (index, id if present, stamp taken right after the element was looked up)
    Snapshot { start: u32, end: u32, items: Vec<(u32, Option<u32>, u64)>, par: bool },
}

#[derive(Clone, Debug)]
pub struct Ev {
    pub thread: usize,
    pub call: u64,
    pub ret: u64,
    pub res: Res,
}

pub struct Shared {
    pub vec: BoxcarVec<Tracked>,
    pub ncols: usize,
    pub reg: Arc<Registry>,
    pub log: Mutex<Vec<Ev>>,
    pub problems: Mutex<Vec<String>>,
}

impl Shared {
    fn problem(&self, p: String) {
        let mut g = self.problems.lock().unwrap();
        if g.len() < 10 {
            g.push(p)
        }
    }
}

fn exec(sh: &Shared, thread: usize, op: &Op) {
    sched::yield_code(P_OP_BEGIN);
    let call = stamp();
    let res = match op {
        Op::Push { id, mode, arg } => {
            let id = *id;
            let value = Tracked::new(id, &sh.reg);
            if *mode == 3 {
                sh.reg.exempt[id as usize].store(true, Ordering::Relaxed);
            }
            if *mode == 4 {
                // the push is issued by a destructor that runs while the thread unwinds from an unrelated panic
                struct PushOnDrop<'a> {
                    sh: &'a Shared,
                    value: Option<Tracked>,
                    idx: &'a std::cell::Cell<Option<u32>>,
                }
                impl Drop for PushOnDrop<'_> {
                    fn drop(&mut self) {
                        let v = self.value.take().unwrap();
                        let idx = self.sh.vec.push(v, |v, cols| fill(v.id, cols));
                        self.idx.set(Some(idx));
                    }
                }
                let cell = std::cell::Cell::new(None);
                let _ = catch_unwind(AssertUnwindSafe(|| {
                    let _guard = PushOnDrop { sh, value: Some(value), idx: &cell };
                    panic!("unwinding on purpose while a destructor pushes");
                }));
                let res = Res::Push { id, idx: cell.get() };
                let ret = stamp();
                sh.log.lock().unwrap().push(Ev { thread, call, ret, res });
                sched::yield_code(P_OP_END);
                return;
            }
            let r = catch_unwind(AssertUnwindSafe(|| {
                sh.vec.push(value, |v, cols| {
                    match *mode {
                        1 => {
                            // re-entrant lookup from inside the callback
                            if let Some(it) = sh.vec.get(*arg) {
                                if let Err(e) = verify_item(&it, sh.ncols) {
                                    sh.problem(format!("re-entrant get({arg}): {e}"));
                                }
                            }
                        }
                        2 => {
                            let _ = sh.vec.count();
                        }
                        3 => panic!("fill callback panics on purpose"),
                        _ => (),
                    }
                    fill(v.id, cols)
                })
            }));
            Res::Push { id, idx: r.ok() }
        }
        Op::Extend { ids, reported, panic_at } => {
            let it = LyingIter {
                ids: ids.clone(),
                pos: 0,
                reported: *reported,
                reg: sh.reg.clone(),
                len_calls: std::cell::Cell::new(0),
            };
            // items that can never be inserted are exempt from the early-drop rule
            for (k, id) in ids.iter().enumerate() {
                if k >= *reported || Some(k) == *panic_at {
                    sh.reg.exempt[*id as usize].store(true, Ordering::Relaxed);
                }
            }
            let written = AtomicU32::new(0);
            let r = catch_unwind(AssertUnwindSafe(|| {
                sh.vec.extend(it, |v, cols| {
                    let k = written.load(Ordering::Relaxed) as usize;
                    if Some(k) == *panic_at {
                        panic!("fill callback panics on purpose");
                    }
                    fill(v.id, cols);
                    written.store(k as u32 + 1, Ordering::Relaxed);
                })
            }));
            Res::Extend {
                ids: ids.clone(),
                reported: *reported,
                written: written.load(Ordering::Relaxed) as usize,
                panicked: r.is_err(),
            }
        }
        Op::Get { idx } => {
            let got = match sh.vec.get(*idx) {
                None => None,
                Some(it) => match verify_item(&it, sh.ncols) {
                    Ok(id) => {
                        // the unchecked accessor after an observed Some
                        let it2 = unsafe { sh.vec.get_unchecked(*idx) };
                        if verify_item(&it2, sh.ncols) != Ok(id) {
                            sh.problem(format!("get_unchecked({idx}) disagrees with get"));
                        }
                        Some(id)
                    }
                    Err(e) => {
                        sh.problem(format!("get({idx}) returned an incompletely written item: {e}"));
                        Some(u32::MAX)
                    }
                },
            };
            Res::Get { idx: *idx, got }
        }
        Op::Count => Res::Count { n: sh.vec.count() },
        Op::Snapshot { start, par } => {
            let start = (*start).min(sh.vec.count());
            let items: Mutex<Vec<(u32, Option<u32>, u64)>> = Mutex::new(Vec::new());
            let visit = |idx: u32, it: Option<Item<'_, Tracked>>| {
                let v = match it {
                    None => None,
                    Some(it) => match verify_item(&it, sh.ncols) {
                        Ok(id) => Some(id),
                        Err(e) => {
                            sh.problem(format!("snapshot yielded an incompletely written item at {idx}: {e}"));
                            Some(u32::MAX)
                        }
                    },
                };
                items.lock().unwrap().push((idx, v, stamp()));
            };
            let end = if *par {
                sh.vec.par_snapshot(start, visit)
            } else {
                sh.vec.snapshot(start, visit)
            };
            let mut items = items.into_inner().unwrap();
            if *par {
                items.sort();
            }
            Res::Snapshot { start, end, items, par: *par }
        }
    };
    let ret = stamp();
    sh.log.lock().unwrap().push(Ev { thread, call, ret, res });
    sched::yield_code(P_OP_END);
}

/// offline checker of a recorded history against the append-only sequence model
pub fn check_history(sh: &Shared, log: &[Ev], per_element: bool) -> Vec<(String, String)> {
    let mut out: Vec<(String, String)> = Vec::new();
    let mut v = |kind: &str, msg: String| {
        if out.len() < 8 {
            out.push((kind.to_owned(), msg))
        }
    };
    let count = sh.vec.count();
    // final scan
    let mut at: HashMap<u32, u32> = HashMap::new(); // idx -> id
    let mut where_: HashMap<u32, u32> = HashMap::new(); // id -> idx
    for idx in 0..count {
        if let Some(it) = sh.vec.get(idx) {
            match verify_item(&it, sh.ncols) {
                Ok(id) => {
                    at.insert(idx, id);
                    if let Some(prev) = where_.insert(id, idx) {
                        v("item-at-two-indices", format!("id {id} at {prev} and {idx}"));
                    }
                }
                Err(e) => v("incomplete-item", format!("final scan index {idx}: {e}")),
            }
        }
    }
    for idx in count..count + 3 {
        if sh.vec.get(idx).is_some() {
            v("item-beyond-count", format!("index {idx} >= count {count} holds an item"));
        }
    }
    // expected reservations
    let mut reserved: u64 = 0;
    // id -> (call, ret) of the producing operation
    let mut producer: HashMap<u32, (u64, u64)> = HashMap::new();
    let mut must_exist: Vec<u32> = Vec::new();
    let mut must_not_exist: Vec<u32> = Vec::new();
    for e in log {
        match &e.res {
            Res::Push { id, idx } => {
                reserved += 1;
                producer.insert(*id, (e.call, e.ret));
                match idx {
                    Some(i) => {
                        must_exist.push(*id);
                        if at.get(i) != Some(id) {
                            v("push-index-holds-other-item", format!("push of id {id} returned {i}, final content {:?}", at.get(i)));
                        }
                    }
                    None => must_not_exist.push(*id),
                }
            }
            Res::Extend { ids, reported, written, panicked } => {
                if *reported > 0 {
                    reserved += *reported as u64;
                } else if !ids.is_empty() && !*panicked {
                    v("extend-accepted-lying-zero-length", format!("{} items yielded for reported length 0", ids.len()));
                }
                let expect_written = ids.len().min(*reported);
                for (k, id) in ids.iter().enumerate() {
                    producer.insert(*id, (e.call, e.ret));
                    if k < *written {
                        must_exist.push(*id)
                    } else {
                        must_not_exist.push(*id)
                    }
                }
                if !*panicked && *written != expect_written {
                    v("extend-wrote-wrong-number", format!("wrote {written} of {} (reported {reported})", ids.len()));
                }
                if ids.len() > *reported && *reported > 0 && !*panicked {
                    v("extend-accepted-too-many-items", format!("{} items for reported {reported}", ids.len()));
                }
                // batch items keep their relative order (observation: contiguity is not judged)
                let pos: Vec<u32> = ids.iter().take(*written).filter_map(|id| where_.get(id).copied()).collect();
                if pos.windows(2).any(|w| w[1] <= w[0]) {
                    v("extend-order-broken", format!("batch indices {pos:?}"));
                }
            }
            _ => (),
        }
    }
    if count as u64 != reserved {
        v("count-differs-from-reservations", format!("final count {count}, pushes + reported batch lengths {reserved}"));
    }
    for id in &must_exist {
        if !where_.contains_key(id) {
            v("item-lost", format!("id {id} was pushed but is at no index"));
        }
    }
    for id in &must_not_exist {
        if where_.contains_key(id) {
            v("phantom-item", format!("id {id} must not be visible but is at {}", where_[id]));
        }
    }
    for (idx, id) in &at {
        if !producer.contains_key(id) {
            v("item-nobody-pushed", format!("index {idx} holds id {id} that no operation produced"));
        }
    }
    // completed operations: idx -> ret stamp after which the item must be visible
    let mut visible_after: HashMap<u32, u64> = HashMap::new();
    for (id, idx) in &where_ {
        if let Some((_, ret)) = producer.get(id) {
            visible_after.insert(*idx, *ret);
        }
    }
    let mut counts: Vec<(u64, u64, u32)> = Vec::new();
    for e in log {
        match &e.res {
            Res::Get { idx, got } => match got {
                Some(id) if *id != u32::MAX => {
                    if at.get(idx) != Some(id) {
                        v("get-disagrees-with-final-content", format!("get({idx}) = id {id}, final {:?}", at.get(idx)));
                    }
                    match producer.get(id) {
                        Some((call, _)) if *call < e.ret => (),
                        Some(_) => v("get-before-push-invoked", format!("get({idx}) returned id {id} before its push was invoked")),
                        None => v("get-item-nobody-pushed", format!("get({idx}) returned id {id}")),
                    }
                }
                Some(_) => (),
                None => {
                    if let Some(ret) = visible_after.get(idx) {
                        if *ret < e.call {
                            v("get-none-after-push-returned", format!("get({idx}) = None although the push/extend that filled it had returned"));
                        }
                    }
                }
            },
            Res::Count { n } => counts.push((e.call, e.ret, *n)),
            Res::Snapshot { start, end, items, par } => {
                if end < start {
                    v("snapshot-end-before-start", format!("{start}..{end}"));
                }
                let want: Vec<u32> = (*start..*end).collect();
                let got: Vec<u32> = items.iter().map(|x| x.0).collect();
                if want != got {
                    v("snapshot-indices", format!("snapshot({start}) par={par} yielded {} entries for {start}..{end}", got.len()));
                }
                for (idx, it, looked_up) in items {
                    match it {
                        Some(id) if *id != u32::MAX => {
                            if at.get(idx) != Some(id) {
                                v("snapshot-disagrees-with-final-content", format!("index {idx}: id {id}, final {:?}", at.get(idx)));
                            }
                        }
                        Some(_) => (),
                        None => {
                            if let Some(ret) = visible_after.get(idx) {
                                // in a controlled schedule nothing can run between an element's lookup and
                                // its stamp, so the element level rule is exact; free running threads are
                                // judged at the level of the whole snapshot call
                                let bound = if per_element { *looked_up } else { e.call };
                                if *ret < bound {
                                    v("snapshot-none-after-push-returned", format!("index {idx} (lookup stamp {looked_up}, push returned at {ret})"));
                                }
                            }
                        }
                    }
                }
                counts.push((e.call, e.ret, *end));
            }
            _ => (),
        }
    }
    // count: monotone in real time, >= completed, <= invoked
    for (i, a) in counts.iter().enumerate() {
        for b in &counts[i + 1..] {
            if a.1 < b.0 && a.2 > b.2 {
                v("count-decreased", format!("{} then {}", a.2, b.2));
            }
            if b.1 < a.0 && b.2 > a.2 {
                v("count-decreased", format!("{} then {}", b.2, a.2));
            }
        }
        let mut completed = 0u64;
        let mut invoked = 0u64;
        for e in log {
            let w = match &e.res {
                Res::Push { .. } => 1,
                Res::Extend { reported, .. } => *reported as u64,
                _ => 0,
            };
            if e.ret < a.0 {
                completed += w
            }
            if e.call < a.1 {
                invoked += w
            }
        }
        if (a.2 as u64) < completed {
            v("count-below-completed-pushes", format!("count {} < {completed}", a.2));
        }
        if (a.2 as u64) > invoked {
            v("count-above-invoked-reservations", format!("count {} > {invoked}", a.2));
        }
    }
    for p in sh.problems.lock().unwrap().iter() {
        v("incomplete-item", p.clone());
    }
    out
}

fn gen_script(rng: &mut Rng, next_id: &mut u32, nops: usize, hot: u32, writer_bias: usize, allow_par: bool) -> Vec<Op> {
    let mut ops = Vec::new();
    for _ in 0..nops {
        let r = rng.below(100);
        let op = if r < writer_bias {
            if rng.chance(2, 3) {
                let id = *next_id;
                *next_id += 1;
                let mode = match rng.below(12) {
                    0 => 1,
                    1 => 2,
                    2 => 3,
                    3 => 4,
                    _ => 0,
                };
                Op::Push { id, mode, arg: rng.below(hot as usize + 1) as u32 }
            } else {
                let n = match rng.below(8) {
                    0 => 0,
                    1..=4 => rng.range(1, 6),
                    5 => rng.range(20, 40),
                    6 => rng.range(60, 110),
                    _ => rng.range(1, 3),
                };
                let ids: Vec<u32> = (0..n).map(|k| *next_id + k as u32).collect();
                *next_id += n as u32;
                let reported = match rng.below(10) {
                    0 => n + rng.range(1, 40),           // over reports
                    1 if n > 1 => n - rng.range(1, n - 1), // under reports (asserted by the vector)
                    2 if n > 0 && rng.coin() => 0,
                    _ => n,
                };
                let panic_at = if n > 0 && rng.chance(1, 12) { Some(rng.below(n)) } else { None };
                Op::Extend { ids, reported, panic_at }
            }
        } else if r < writer_bias + 25 {
            Op::Get { idx: rng.below(hot as usize + 4) as u32 }
        } else if r < writer_bias + 33 {
            Op::Count
        } else {
            // mostly start near the end so that controlled runs stay short
            let start = if rng.chance(1, 8) { rng.below(hot as usize + 1) as u32 } else { hot.saturating_sub(rng.range(6, 14) as u32) };
            Op::Snapshot { start, par: allow_par && rng.chance(1, 4) }
        };
        ops.push(op);
    }
    ops
}

pub struct Opts {
    pub seed: u64,
    pub shard: u64,
    pub cases: u64,
    pub time_limit: f64,
    pub replay: Option<u64>,
}

fn describe_ops(scripts: &[Vec<Op>]) -> J {
    J::Arr(
        scripts
            .iter()
            .map(|s| J::Arr(s.iter().map(|o| J::Str(format!("{o:?}").chars().take(120).collect())).collect()))
            .collect(),
    )
}

/// C08, controlled schedules
pub fn run_lin(opts: &Opts, rep: &mut Report) {
    set_hook(Some(sched::sched_hook));
    let range: Box<dyn Iterator<Item = u64>> = match opts.replay {
        Some(i) => Box::new(i..i + 1),
        None => Box::new(0..opts.cases),
    };
    for idx in range {
        if idx % 16 == 0 && rep.elapsed() > opts.time_limit {
            rep.note(format!("time limit reached after {idx} schedules"));
            break;
        }
        let mut rng = Rng::new(mix(&[opts.seed, opts.shard, idx, 8]));
        let nthreads = rng.range(2, 5);
        let ncols = rng.range(1, 3);
        let cap = *rng.pick(&[0u32, 1, 1, 32, 33, 1024]);
        let max_ops = if rng.chance(1, 5) { 30 } else { 8 };
        let nops = rng.range(2, max_ops);
        let reg = Registry::new(8192);
        let sh = Shared {
            vec: BoxcarVec::with_capacity(cap, ncols as u32),
            ncols,
            reg: reg.clone(),
            log: Mutex::new(Vec::new()),
            problems: Mutex::new(Vec::new()),
        };
        reg.live_handles.store(1, Ordering::Relaxed);
        // pre-fill so that bucket boundaries (32, 96, 224) are near
        let mut next_id = 0u32;
        let prefill = *rng.pick(&[0u32, 0, 24, 27, 28, 30, 31, 80, 90, 94, 215]);
        for _ in 0..prefill {
            let id = next_id;
            next_id += 1;
            let call = stamp();
            let idx = sh.vec.push(Tracked::new(id, &reg), |v, c| fill(v.id, c));
            let ret = stamp();
            sh.log.lock().unwrap().push(Ev { thread: 99, call, ret, res: Res::Push { id, idx: Some(idx) } });
        }
        let hot = prefill + 12;
        let scripts: Vec<Vec<Op>> = (0..nthreads)
            .map(|_| {
                let bias = *rng.pick(&[20usize, 50, 50, 70]);
                gen_script(&mut rng, &mut next_id, nops, hot, bias, false)
            })
            .collect();
        let policy = match rng.below(4) {
            0 => Policy::Uniform,
            1 => Policy::Sticky,
            2 => Policy::Pct(rng.range(1, 3) as u32),
            _ => Policy::Uniform,
        };
        let shr = &sh;
        let bodies: Vec<Box<dyn FnOnce() + '_>> = scripts
            .iter()
            .enumerate()
            .map(|(t, script)| {
                let b: Box<dyn FnOnce() + '_> = Box::new(move || {
                    for op in script {
                        exec(shr, t, op);
                    }
                });
                b
            })
            .collect();
        let (steps, trace_hash, trace) = run_coroutines(bodies, &mut rng, policy, (nthreads * nops * 12) as u64);
        let log = std::mem::take(&mut *sh.log.lock().unwrap());
        rep.count("schedules");
        rep.add("steps", steps);
        rep.add("ops", log.len() as u64);
        rep.distinct(trace_hash);
        // coverage of the rare windows
        let mut cas_threads: Vec<u8> = trace.iter().filter(|(_, c)| *c == Point::VecBeforeAllocCas as u8).map(|x| x.0).collect();
        rep.add("alloc-cas-points", cas_threads.len() as u64);
        cas_threads.dedup();
        if cas_threads.len() >= 2 {
            rep.count("schedules-with-competing-bucket-allocation");
        }
        let viol = check_history(&sh, &log, true);
        let final_count = sh.vec.count();
        for e in &log {
            if let Res::Get { idx, got: None } = &e.res {
                if *idx < final_count {
                    rep.count("gets-that-met-an-unpublished-or-reserved-slot");
                }
            }
            if let Res::Snapshot { items, .. } = &e.res {
                if items.iter().any(|x| x.1.is_none()) {
                    rep.count("snapshots-that-met-unpublished-slots");
                }
            }
            if let Res::Extend { ids, reported, .. } = &e.res {
                if ids.len() != *reported {
                    rep.count("lying-iterators");
                }
            }
        }
        if rep.want_sample() && idx % 29 == 7 {
            rep.sample(jobj! {"threads" => nthreads, "capacity" => cap, "columns" => ncols, "prefill" => prefill, "policy" => format!("{policy:?}"),
                "steps" => steps, "scripts" => describe_ops(&scripts)});
        }
        for (kind, msg) in viol {
            rep.violation(
                "C08",
                &kind,
                format!("cap={} cols={ncols}", if cap <= 1 { "small" } else { "prealloc" }),
                jobj! {"problem" => msg, "case_id" => format!("{}:{}:{}", opts.seed, opts.shard, idx), "threads" => nthreads, "capacity" => cap,
                       "prefill" => prefill, "policy" => format!("{policy:?}"), "scripts" => describe_ops(&scripts),
                       "trace_tail" => J::Arr(trace.iter().rev().take(60).rev().map(|(t, c)| J::Str(format!("t{t}@{c}"))).collect())},
            );
        }
        reg.live_handles.store(0, Ordering::Relaxed);
        drop(sh);
    }
    set_hook(None);
}

thread_local! {
    static DELAY_RNG: std::cell::RefCell<Option<Rng>> = const { std::cell::RefCell::new(None) };
}

fn delay_hook(_p: Point) {
    DELAY_RNG.with(|r| {
        if let Some(rng) = r.borrow_mut().as_mut() {
            match rng.below(64) {
                0 => std::thread::yield_now(),
                1..=3 => {
                    for _ in 0..rng.below(2000) {
                        std::hint::spin_loop()
                    }
                }
                _ => (),
            }
        }
    });
}

/// C08, free running stress with seeded spin delays at the yield points
/// many threads do nothing but push into a fresh vector, as fast as they can, across a dozen bucket boundaries (the hooks
/// do nothing here): preemption inside sections that have no yield point - bucket allocation above all - comes from the
/// machine. Afterwards every returned index must hold exactly the item that was pushed there.
fn hammer(opts: &Opts, idx: u64, rng: &mut Rng, rep: &mut Report) {
    let nthreads = *rng.pick(&[6usize, 8, 12, 16, 24]);
    let per_thread = rng.range(300, 2500) as u32;
    let ncols = rng.range(1, 2);
    let cap = *rng.pick(&[0u32, 1, 1, 32]);
    let total = nthreads as u32 * per_thread;
    let reg = Registry::new((total as usize + 16).max(1 << 10));
    reg.live_handles.store(1, Ordering::Relaxed);
    let vec: BoxcarVec<Tracked> = BoxcarVec::with_capacity(cap, ncols as u32);
    let start = AtomicBool::new(false);
    let results: Vec<Vec<(u32, u32)>> = std::thread::scope(|scope| {
        let handles: Vec<_> = (0..nthreads)
            .map(|t| {
                let (vec, reg, start) = (&vec, &reg, &start);
                scope.spawn(move || {
                    let mut out = Vec::with_capacity(per_thread as usize);
                    while !start.load(Ordering::Relaxed) {
                        std::hint::spin_loop();
                    }
                    for k in 0..per_thread {
                        let id = t as u32 * per_thread + k;
                        let index = vec.push(Tracked::new(id, reg), |v, cols| fill(v.id, cols));
                        out.push((id, index));
                    }
                    out
                })
            })
            .collect();
        start.store(true, Ordering::Relaxed);
        handles.into_iter().map(|h| h.join().unwrap()).collect()
    });
    rep.count("histories");
    rep.count("stress.hammer-histories");
    rep.add("ops", total as u64);
    rep.max("stress.max-threads", nthreads as u64);
    rep.distinct(mix(&[opts.seed, opts.shard, idx, total as u64]));
    let mut problem: Option<(&str, String)> = None;
    let mut seen = vec![false; total as usize];
    for &(id, index) in results.iter().flatten() {
        if index >= total || std::mem::replace(&mut seen[index as usize], true) {
            problem = Some(("index-handed-out-twice", format!("index {index} (id {id}) of {total} pushes is out of range or was handed out twice")));
            break;
        }
        match vec.get(index) {
            None => {
                problem = Some(("completed-push-not-readable", format!("get({index}) is None although the push of id {id} returned that index")));
                break;
            }
            Some(item) => match verify_item(&item, ncols) {
                Ok(got) if got == id => (),
                Ok(got) => {
                    problem = Some(("push-index-holds-other-item", format!("index {index} holds id {got}, the push of id {id} returned it")));
                    break;
                }
                Err(e) => {
                    problem = Some(("item-incomplete", format!("index {index}: {e}")));
                    break;
                }
            },
        }
    }
    if problem.is_none() && vec.count() != total {
        problem = Some(("count-differs-from-reservations", format!("count {} after {total} pushes", vec.count())));
    }
    if let Some((kind, msg)) = problem {
        rep.violation(
            "C08",
            kind,
            format!("hammer cols={ncols}"),
            jobj! {"problem" => msg, "case_id" => format!("{}:{}:{}", opts.seed, opts.shard, idx), "threads" => nthreads, "capacity" => cap,
                   "mode" => "free-running pushes only", "pushes_per_thread" => per_thread},
        );
    }
    reg.live_handles.store(0, Ordering::Relaxed);
    drop(vec);
    // (drop accounting of this workload belongs to C11 and is exercised there)
}

pub fn run_stress(opts: &Opts, rep: &mut Report, small: bool) {
    set_hook(Some(delay_hook));
    let pool = (!small).then(|| rayon::ThreadPoolBuilder::new().num_threads(4).build().unwrap());
    let range: Box<dyn Iterator<Item = u64>> = match opts.replay {
        Some(i) => Box::new(i..i + 1),
        None => Box::new(0..opts.cases),
    };
    for idx in range {
        if rep.elapsed() > opts.time_limit {
            rep.note(format!("time limit reached after {idx} histories"));
            break;
        }
        let mut rng = Rng::new(mix(&[opts.seed, opts.shard, idx, 88]));
        if !small && idx % 3 == 2 {
            hammer(opts, idx, &mut rng, rep);
            continue;
        }
        let nthreads = if small { rng.range(2, 3) } else { rng.range(2, 16) };
        let ncols = rng.range(1, 3);
        let cap = *rng.pick(&[0u32, 1, 32, 1024]);
        let nops = if small { rng.range(2, 6) } else { rng.range(5, 60) };
        let reg = Registry::new(if cfg!(miri) { 512 } else if small { 2048 } else { 1 << 17 });
        let sh = Shared {
            vec: BoxcarVec::with_capacity(cap, ncols as u32),
            ncols,
            reg: reg.clone(),
            log: Mutex::new(Vec::new()),
            problems: Mutex::new(Vec::new()),
        };
        reg.live_handles.store(1, Ordering::Relaxed);
        let mut next_id = 0u32;
        let hot = (nthreads * nops) as u32;
        let scripts: Vec<Vec<Op>> = (0..nthreads)
            .map(|_| {
                let bias = *rng.pick(&[30usize, 50, 70]);
                gen_script(&mut rng, &mut next_id, nops, hot, bias, !small)
            })
            .collect();
        let start = AtomicBool::new(false);
        let shr = &sh;
        let startr = &start;
        let seeds: Vec<u64> = (0..nthreads).map(|_| rng.next_u64()).collect();
        std::thread::scope(|scope| {
            for (t, script) in scripts.iter().enumerate() {
                let seed = seeds[t];
                let pool = &pool;
                scope.spawn(move || {
                    DELAY_RNG.with(|r| *r.borrow_mut() = Some(Rng::new(seed)));
                    while !startr.load(Ordering::Relaxed) {
                        std::hint::spin_loop();
                    }
                    for op in script {
                        if let (Op::Snapshot { par: true, .. }, Some(pool)) = (op, pool.as_ref()) {
                            pool.install(|| exec(shr, t, op));
                        } else {
                            exec(shr, t, op);
                        }
                    }
                });
            }
            start.store(true, Ordering::Relaxed);
        });
        let log = std::mem::take(&mut *sh.log.lock().unwrap());
        rep.count("histories");
        rep.add("ops", log.len() as u64);
        rep.max("stress.max-threads", nthreads as u64);
        let mut h = Hasher64::new();
        for e in &log {
            h.add(e.call ^ (e.thread as u64) << 40);
        }
        rep.distinct(h.finish());
        let overlapping = log.iter().filter(|a| log.iter().any(|b| b.thread != a.thread && b.call < a.ret && a.call < b.ret)).count();
        rep.add("ops-overlapping-another-thread", overlapping as u64);
        let final_count = sh.vec.count();
        for e in &log {
            if let Res::Get { idx, got: None } = &e.res {
                if *idx < final_count {
                    rep.count("gets-that-met-an-unpublished-or-reserved-slot");
                }
            }
        }
        if rep.want_sample() && idx % 13 == 1 {
            rep.sample(jobj! {"threads" => nthreads, "capacity" => cap, "columns" => ncols, "ops_per_thread" => nops, "final_count" => final_count});
        }
        for (kind, msg) in check_history(&sh, &log, false) {
            rep.violation(
                "C08",
                &kind,
                format!("stress cols={ncols}"),
                jobj! {"problem" => msg, "case_id" => format!("{}:{}:{}", opts.seed, opts.shard, idx), "threads" => nthreads, "capacity" => cap,
                       "mode" => "free-running", "scripts" => describe_ops(&scripts)},
            );
        }
        reg.live_handles.store(0, Ordering::Relaxed);
        drop(sh);
    }
    set_hook(None);
}

// ---------------------------------------------------------------------------------- C11 vector level

/// histories on one vector, then drop it: every created payload dropped exactly once
pub fn run_drop(opts: &Opts, rep: &mut Report, small: bool) {
    let range: Box<dyn Iterator<Item = u64>> = match opts.replay {
        Some(i) => Box::new(i..i + 1),
        None => Box::new(0..opts.cases),
    };
    for idx in range {
        if rep.elapsed() > opts.time_limit {
            rep.note(format!("time limit reached after {idx} histories"));
            break;
        }
        let mut rng = Rng::new(mix(&[opts.seed, opts.shard, idx, 11]));
        let ncols = rng.range(1, 3);
        let cap = *rng.pick(&[0u32, 1, 1, 1, 32, 100]);
        let reg = Registry::new(if cfg!(miri) { 512 } else if small { 2048 } else { 1 << 16 });
        let sh = Shared {
            vec: BoxcarVec::with_capacity(cap, ncols as u32),
            ncols,
            reg: reg.clone(),
            log: Mutex::new(Vec::new()),
            problems: Mutex::new(Vec::new()),
        };
        reg.live_handles.store(1, Ordering::Relaxed);
        let mut next_id = 0u32;
        let nthreads = if small { rng.range(1, 2) } else { rng.range(1, 4) };
        let max_ops = if small { 5 } else { 14 };
        let nops = rng.range(1, max_ops);
        let mut scripts: Vec<Vec<Op>> = (0..nthreads)
            .map(|_| gen_script(&mut rng, &mut next_id, nops, 40, 75, false))
            .collect();
        // the gap shape: an over-reporting batch that skips whole buckets, then ordinary pushes
        if rng.chance(1, 3) {
            let n = rng.range(1, 4);
            let ids: Vec<u32> = (0..n).map(|k| next_id + k as u32).collect();
            next_id += n as u32;
            let reported = n + *rng.pick(&[40usize, 100, 240, 300, 700]);
            let mut s = vec![Op::Extend { ids, reported, panic_at: None }];
            for _ in 0..rng.range(1, 3) {
                s.push(Op::Push { id: next_id, mode: 0, arg: 0 });
                next_id += 1;
            }
            scripts[0].splice(0..0, s);
            rep.count("c11.gap-shapes");
        }
        // a long gap inside one large bucket: thousands of honest items first, then a batch that over-reports by thousands without
        // leaving the bucket, then ordinary pushes behind the gap
        if !small && !cfg!(miri) && rng.chance(1, 10) {
            let honest = *rng.pick(&[8200usize, 8200, 17_000, 33_000]);
            let ids: Vec<u32> = (0..honest).map(|k| next_id + k as u32).collect();
            next_id += honest as u32;
            let mut s = vec![Op::Extend { reported: ids.len(), ids, panic_at: None }];
            let n = rng.range(1, 3);
            let ids: Vec<u32> = (0..n).map(|k| next_id + k as u32).collect();
            next_id += n as u32;
            let gap = *rng.pick(&[4097usize, 4200, 5000, 7000]) * (honest / 8200).min(2);
            s.push(Op::Extend { reported: ids.len() + gap, ids, panic_at: None });
            for _ in 0..rng.range(1, 10) {
                s.push(Op::Push { id: next_id, mode: 0, arg: 0 });
                next_id += 1;
            }
            scripts[0].splice(0..0, s);
            rep.count("c11.long-gaps-inside-a-large-bucket");
        }
        let shr = &sh;
        std::thread::scope(|scope| {
            for (t, script) in scripts.iter().enumerate() {
                scope.spawn(move || {
                    for op in script {
                        exec(shr, t, op);
                    }
                });
            }
        });
        let log = std::mem::take(&mut *sh.log.lock().unwrap());
        rep.count("histories");
        rep.add("ops", log.len() as u64);
        let created: Vec<u32> = (0..next_id).filter(|&i| reg.created[i as usize].load(Ordering::Relaxed) > 0).collect();
        let dropped_before: u32 = created.iter().map(|&i| reg.drops[i as usize].load(Ordering::Relaxed)).sum();
        // C11: until the last handle goes away every published item keeps exactly the columns that were filled for it
        let mut damaged: Option<String> = None;
        let scan_to = sh.vec.count().min(20_000);
        for i in 0..scan_to {
            if let Some(item) = sh.vec.get(i) {
                if let Err(e) = verify_item(&item, ncols) {
                    damaged = Some(format!("index {i}: {e}"));
                    break;
                }
            }
        }
        // the last handle goes away
        reg.live_handles.store(0, Ordering::Relaxed);
        let final_count = sh.vec.count();
        let history_problems = check_history(&sh, &log, false);
        drop(sh);
        let mut h = Hasher64::new();
        h.add(final_count as u64);
        h.add(created.len() as u64);
        h.add(cap as u64 * 7 + ncols as u64);
        for e in &log {
            if let Res::Extend { ids, reported, written, panicked } = &e.res {
                h.add((ids.len() * 1000 + reported * 10 + written + *panicked as usize) as u64);
            }
        }
        rep.distinct(h.finish());
        rep.add("c11.payloads-created", created.len() as u64);
        rep.add("c11.payloads-dropped-before-vector-drop", dropped_before as u64);
        let sig = |k: &str| format!("{k} cap={}", if cap <= 1 { "small" } else { "prealloc" });
        let detail = |msg: String| {
            jobj! {"problem" => msg, "case_id" => format!("{}:{}:{}", opts.seed, opts.shard, idx), "capacity" => cap, "columns" => ncols,
                   "final_count" => final_count, "scripts" => describe_ops(&scripts)}
        };
        if rep.want_sample() && idx % 7 == 2 {
            rep.sample(detail("sample".into()));
        }
        for &i in &created {
            let d = reg.drops[i as usize].load(Ordering::Relaxed);
            let c = reg.created[i as usize].load(Ordering::Relaxed);
            if d != c {
                rep.violation(
                    "C11",
                    if d < c { "payload-never-dropped" } else { "payload-dropped-twice" },
                    sig("vector"),
                    detail(format!("id {i}: created {c}, dropped {d}")),
                );
                break;
            }
        }
        if reg.early_drops.load(Ordering::Relaxed) > 0 {
            rep.violation("C11", "payload-dropped-while-reachable", sig("vector"), detail(format!("{} early drops", reg.early_drops.load(Ordering::Relaxed))));
        }
        if let Some(d) = damaged {
            rep.violation("C11", "columns-destroyed-while-reachable", sig("vector"), detail(format!("after all operations returned and before any handle was dropped: {d}")));
        }
        if reg.bad_canary.load(Ordering::Relaxed) > 0 {
            rep.violation("C11", "drop-of-invalid-payload", sig("vector"), detail("canary invalid in Drop (double drop / use after drop)".into()));
        }
        for (kind, msg) in history_problems {
            // vector history problems belong to C08; recorded here only as a note
            rep.note(format!("history problem seen by the C11 workload ({kind}): {msg}"));
        }
    }
}

// ---------------------------------------------------------------------------------- C09 race shapes

/// no hook, no shared log, no shared counters: only the orderings declared in the source
/// order the accesses. Returns per-thread observation counts after all threads joined.
pub fn run_race(opts: &Opts, rep: &mut Report, items_per_writer: u32, writers: usize, readers: usize) {
    let range: Box<dyn Iterator<Item = u64>> = match opts.replay {
        Some(i) => Box::new(i..i + 1),
        None => Box::new(0..opts.cases),
    };
    for idx in range {
        if rep.elapsed() > opts.time_limit {
            break;
        }
        let mut rng = Rng::new(mix(&[opts.seed, opts.shard, idx, 9]));
        let ncols = rng.range(1, 2);
        let reg = Registry::new((items_per_writer as usize * writers + 64).max(256));
        let vec = BoxcarVec::<Tracked>::with_capacity(1, ncols as u32);
        let total = items_per_writer * writers as u32;
        let go = AtomicBool::new(false);
        let use_extend = rng.coin();
        let results: Vec<(u64, u64, Vec<String>)> = std::thread::scope(|scope| {
            let mut handles = Vec::new();
            for w in 0..writers {
                let (vec, reg, go) = (&vec, &reg, &go);
                handles.push(scope.spawn(move || {
                    while !go.load(Ordering::Relaxed) {
                        std::hint::spin_loop();
                    }
                    let base = w as u32 * items_per_writer;
                    if use_extend && w % 2 == 1 {
                        let ids: Vec<u32> = (base..base + items_per_writer).collect();
                        let n = ids.len();
                        vec.extend(LyingIter { ids, pos: 0, reported: n, reg: reg.clone(), len_calls: std::cell::Cell::new(0) }, |v, c| fill(v.id, c));
                    } else {
                        for i in 0..items_per_writer {
                            vec.push(Tracked::new(base + i, reg), |v, c| fill(v.id, c));
                        }
                    }
                    (0u64, 0u64, Vec::new())
                }));
            }
            for r in 0..readers {
                let (vec, go) = (&vec, &go);
                let kind = r % 3;
                handles.push(scope.spawn(move || {
                    while !go.load(Ordering::Relaxed) {
                        std::hint::spin_loop();
                    }
                    let mut some = 0u64;
                    let mut none = 0u64;
                    let mut problems = Vec::new();
                    let rounds = 3;
                    for _ in 0..rounds {
                        match kind {
                            // plain lookups, never touching the counter: indices in buckets that the
                            // writers are about to allocate
                            0 => {
                                for i in (0..total + 8).rev() {
                                    match vec.get(i) {
                                        Some(it) => {
                                            some += 1;
                                            if let Err(e) = verify_item(&it, ncols) {
                                                problems.push(e);
                                            }
                                            let it2 = unsafe { vec.get_unchecked(i) };
                                            if let Err(e) = verify_item(&it2, ncols) {
                                                problems.push(e);
                                            }
                                        }
                                        None => none += 1,
                                    }
                                }
                            }
                            1 => {
                                for i in 0..total + 8 {
                                    match vec.get(i) {
                                        Some(it) => {
                                            some += 1;
                                            if let Err(e) = verify_item(&it, ncols) {
                                                problems.push(e);
                                            }
                                        }
                                        None => none += 1,
                                    }
                                }
                            }
                            // snapshot iteration during pushes
                            _ => {
                                vec.snapshot(0, |_i, it| match it {
                                    Some(it) => {
                                        some += 1;
                                        if let Err(e) = verify_item(&it, ncols) {
                                            problems.push(e);
                                        }
                                    }
                                    None => none += 1,
                                });
                            }
                        }
                    }
                    (some, none, problems)
                }));
            }
            go.store(true, Ordering::Relaxed);
            handles.into_iter().map(|h| h.join().unwrap()).collect()
        });
        rep.count("race-histories");
        rep.add("race.items-written", total as u64);
        for (some, none, problems) in &results {
            rep.add("race.reads-some", *some);
            rep.add("race.reads-none", *none);
            for p in problems.iter().take(2) {
                rep.violation("C09", "incomplete-item-read", "vector".into(), jobj! {"problem" => p.clone(), "case_id" => format!("{}:{}:{}", opts.seed, opts.shard, idx)});
            }
        }
        rep.distinct(mix(&[opts.seed, opts.shard, idx]));
        if rep.want_sample() {
            rep.sample(jobj! {"writers" => writers, "readers" => readers, "items_per_writer" => items_per_writer, "columns" => ncols, "extend_used" => use_extend,
                "reads_some" => results.iter().map(|r| r.0).sum::<u64>(), "reads_none" => results.iter().map(|r| r.1).sum::<u64>()});
        }
        drop(vec);
        let _ = &reg;
    }
    let _ = AtomicU64::new(0);
}
