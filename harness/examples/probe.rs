use std::sync::atomic::*;
use nucleo::verif::*;
fn main(){
    let n: usize = std::env::args().nth(1).unwrap().parse().unwrap();
    const GAS: i64 = i64::MAX;
    let val: Vec<AtomicI64> = (0..n).map(|_| AtomicI64::new(GAS)).collect();
    let nsolid = AtomicI64::new(0);
    let mut ids: Vec<u32> = (0..n as u32).collect();
    let flag = AtomicBool::new(false);
    let cmp = |a: &u32, b: &u32| {
        let (x, y) = (*a as usize, *b as usize);
        let (vx, vy) = (val[x].load(Ordering::Relaxed), val[y].load(Ordering::Relaxed));
        if vx == GAS && vy == GAS { val[x].store(nsolid.fetch_add(1, Ordering::Relaxed), Ordering::Relaxed); }
        let (vx, vy) = (val[x].load(Ordering::Relaxed), val[y].load(Ordering::Relaxed));
        vx < vy
    };
    // adversary run on a big stack so that it survives
    let pool = rayon::ThreadPoolBuilder::new().num_threads(1).stack_size(1<<30).build().unwrap();
    pool.install(|| par_quicksort(&mut ids, cmp, &flag));
    let mut next = nsolid.load(Ordering::Relaxed);
    let keys: Vec<u32> = val.iter().map(|v| { let x=v.load(Ordering::Relaxed); if x==GAS { next+=1; next as u32 } else { x as u32 } }).collect();
    println!("keys built, now sorting static input of {n} u32 keys with a plain comparator on a default pool");
    let mut v = keys.clone();
    let pool2 = rayon::ThreadPoolBuilder::new().num_threads(4).build().unwrap();
    let r = pool2.install(|| par_quicksort(&mut v, |a,b| a<b, &flag));
    println!("returned {r} sorted={}", v.windows(2).all(|w| w[0]<=w[1]));
}
