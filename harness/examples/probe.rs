use nucleo_matcher::*;
fn main(){
    let mut cfg = Config::DEFAULT; cfg.set_match_paths();
    let h: Vec<char> = ":\u{627}Bb\u{627}:bB:B_b:\u{434}B\u{434}\u{627}Bbb_b\u{627}b:b\u{627}B\u{434}\u{434}bb:b\u{434}\u{434}\u{434}:\u{627}b\u{434}\u{627}BB\u{627}B:_:".chars().collect();
    let n: Vec<char> = "b\u{434}\u{627}bb\u{627}b:".chars().collect();
    for pp in [false,true] {
        cfg.prefer_prefix = pp;
        let mut m = Matcher::new(cfg.clone());
        let mut idx=vec![];
        println!("pp={pp} match={:?} indices={:?} {:?}", m.fuzzy_match(Utf32Str::Unicode(&h), Utf32Str::Unicode(&n)), m.fuzzy_indices(Utf32Str::Unicode(&h), Utf32Str::Unicode(&n), &mut idx), idx);
    }
}
