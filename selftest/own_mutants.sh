#!/bin/sh
# Own (non-independent) mutation checks: each sed-style change is applied to /repo, the repository
# tests are run (must stay green), the named check is run (must report a violation), and /repo is restored.
# usage: selftest/own_mutants.sh   (results are printed; nothing is left behind)
set -u
cd /repo || exit 2
run() {
  name="$1"; prop="$2"; file="$3"; from="$4"; to="$5"
  if [ -n "$(git status --porcelain)" ]; then echo "repo not clean"; exit 2; fi
  python3 - "$file" "$from" "$to" <<'PY'
import sys
f,a,b=sys.argv[1:4]
s=open(f).read()
assert s.count(a)>=1, "pattern not found: "+a
open(f,'w').write(s.replace(a,b,1))
PY
  tests=$(cargo test --workspace --offline 2>&1 | grep -c "test result: ok")
  out=$(cd /verif && cp evidence/$prop.json /tmp/ev_$prop.bak 2>/dev/null; ./check $prop quick 2>&1; echo "exit=$?"; cp /tmp/ev_$prop.bak evidence/$prop.json 2>/dev/null)
  git checkout -- .
  ex=$(echo "$out" | grep -o "exit=[0-9]*")
  kinds=$(echo "$out" | grep "kind=" | head -2 | cut -c1-150 | tr '\n' ';')
  echo "$name [$prop] tests_ok_groups=$tests $ex $kinds"
}
run "active.store Release->Relaxed (push)" C09 src/boxcar.rs "(*entry).active.store(true, Ordering::Release);
            verif_point!(VecAfterActiveStore);
        }

        index" "(*entry).active.store(true, Ordering::Relaxed);
            verif_point!(VecAfterActiveStore);
        }

        index"
run "active.load Acquire->Relaxed (get)" C09 src/boxcar.rs "                .active
                .load(Ordering::Acquire)
                .then(|| Entry::read(entry, self.columns))
        }
    }

    /// Appends" "                .active
                .load(Ordering::Relaxed)
                .then(|| Entry::read(entry, self.columns))
        }
    }

    /// Appends"
run "BONUS_CAMEL123 5->4" C03 matcher/src/score.rs "pub(crate) const BONUS_CAMEL123: u16 = BONUS_BOUNDARY - PENALTY_GAP_START;" "pub(crate) const BONUS_CAMEL123: u16 = BONUS_BOUNDARY - PENALTY_GAP_START - 1;"
run "PENALTY_GAP_EXTENSION 1->2" C03 matcher/src/score.rs "pub(crate) const PENALTY_GAP_EXTENSION: u16 = 1;" "pub(crate) const PENALTY_GAP_EXTENSION: u16 = 2;"
# (equivalent mutant, not reported: inflight fetch_add Release->Relaxed - items are published by their own active flag)
