#!/usr/bin/env python3
"""Generates the expected Unicode data used by the C16 monitor from the system python's
unicodedata (independent of the tables in /repo). Output is committed; the thorough tier
re-runs this script and diffs the result as a trusted-base self check.

casefold_simple.tsv : <hex source>\t<hex target>  simple case folding (C+S), derived as
                      casefold() if it is one char, else lower() if it is one char and differs
nfkd_ascii_base.tsv : <hex>\t<ascii char>  for every char in U+00A0..U+029F, U+1E00..U+1EFF,
                      U+2070..U+209F whose NFKD is an ASCII letter/digit followed only by
                      combining marks
"""
import sys, unicodedata
out = sys.argv[1] if len(sys.argv) > 1 else '.'
pairs = []
for cp in range(0x110000):
    if 0xD800 <= cp <= 0xDFFF:
        continue
    c = chr(cp)
    f = c.casefold()
    if len(f) == 1:
        t = f
    else:
        l = c.lower()
        t = l if len(l) == 1 and l != c else c
    if t != c:
        pairs.append((cp, ord(t)))
with open(out + '/casefold_simple.tsv', 'w') as fh:
    fh.write('# unicodedata %s\n' % unicodedata.unidata_version)
    for a, b in pairs:
        fh.write('%04X\t%04X\n' % (a, b))
rows = []
for lo, hi in ((0xA0, 0x29F), (0x1E00, 0x1EFF), (0x2070, 0x209F)):
    for cp in range(lo, hi + 1):
        c = chr(cp)
        d = unicodedata.normalize('NFKD', c)
        if d == c:
            continue
        base = d[0]
        if base.isascii() and base.isalnum() and all(unicodedata.category(x).startswith('M') for x in d[1:]):
            rows.append((cp, base))
with open(out + '/nfkd_ascii_base.tsv', 'w') as fh:
    fh.write('# unicodedata %s\n' % unicodedata.unidata_version)
    for cp, b in rows:
        fh.write('%04X\t%s\n' % (cp, b))
print(len(pairs), len(rows))
