#!/bin/sh
# trusted-base self check: regenerate the expected Unicode data and compare with the committed files
set -e
root="$1"
tmp="$root/build/regen-data"
mkdir -p "$tmp"
python3 "$root/data/gen.py" "$tmp" >/dev/null
cmp "$tmp/casefold_simple.tsv" "$root/data/casefold_simple.tsv"
cmp "$tmp/nfkd_ascii_base.tsv" "$root/data/nfkd_ascii_base.tsv"
echo "expected data reproduced"
